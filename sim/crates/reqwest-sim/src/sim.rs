//! Simulator-facing side of the reqwest stand-in: the scripted server, the per-request
//! state machines, the request log.
//!
//! All state is thread-local (a run owns its thread), so the client-side types carry only
//! ids and are trivially `Send`.

use crate::{Client, Kind};
use http::{HeaderMap, HeaderName, HeaderValue, StatusCode};
use std::cell::RefCell;
use std::future::Future;
use std::pin::Pin;
use std::task::{Context, Poll, Waker};
use url::Url;

#[derive(Debug, Clone)]
pub struct RequestInfo {
    pub id: usize,
    pub url: String,
    /// The URL the caller asked for: differs from `url` on the second and later hops of a
    /// followed redirect chain.
    pub origin_url: String,
    pub client: u32,
    pub follows_redirects: bool,
    /// Absolute simulated deadline (ns) if the client has a timeout.
    pub deadline: Option<u64>,
    pub at: u64,
}

#[derive(Debug, Clone)]
pub enum Head {
    Status {
        code: u16,
        headers: Vec<(String, String)>,
    },
    ConnectError,
}

#[derive(Debug, Clone, Copy, PartialEq, Eq)]
pub enum BodyEnd {
    /// The body ends with a clean EOF after the listed bytes (complete, or a close-delimited
    /// body whose peer vanished — the client cannot tell).
    Clean,
    /// Connection reset after the listed bytes: `chunk()` returns `Err`.
    Reset,
    /// Nothing more ever arrives; only a timeout ends the request.
    Stall,
}

#[derive(Debug, Clone)]
pub struct Plan {
    pub head_delay: u64,
    pub head: Head,
    /// The bytes that will be delivered (already cut if the script cuts the body).
    pub body: Vec<u8>,
    /// Chunk sizes; zero sizes are skipped; a remainder becomes one more chunk.
    pub chunks: Vec<usize>,
    /// Delay (simulated ns) between the client asking for chunk i and its arrival; missing = 0.
    pub chunk_delays: Vec<u64>,
    pub end: BodyEnd,
    pub end_delay: u64,
}

impl Plan {
    pub fn status(code: u16) -> Plan {
        Plan {
            head_delay: 0,
            head: Head::Status {
                code,
                headers: Vec::new(),
            },
            body: Vec::new(),
            chunks: Vec::new(),
            chunk_delays: Vec::new(),
            end: BodyEnd::Clean,
            end_delay: 0,
        }
    }
    pub fn ok(body: Vec<u8>) -> Plan {
        let mut p = Plan::status(200);
        p.body = body;
        p
    }
    pub fn connect_error() -> Plan {
        let mut p = Plan::status(0);
        p.head = Head::ConnectError;
        p
    }
    pub fn redirect(code: u16, location: &str) -> Plan {
        let mut p = Plan::status(code);
        p.head = Head::Status {
            code,
            headers: vec![("Location".to_string(), location.to_string())],
        };
        p
    }
}

struct Req {
    info: RequestInfo,
    plan: Plan,
    sizes: Vec<usize>,
    head_ready: bool,
    head_taken: bool,
    next_chunk: usize,
    offset: usize,
    chunk_ready: bool,
    chunk_requested: bool,
    end_ready: bool,
    end_requested: bool,
    waker: Option<Waker>,
    timed_out: bool,
    events: Vec<u64>,
    dropped: bool,
    dropped_at_step: Option<u64>,
    delivered: Vec<u8>,
    saw_eof: bool,
    saw_err: bool,
    finished: bool,
    polls_after_end: u64,
}

#[derive(Debug, Clone)]
pub struct ReqSnapshot {
    pub info: RequestInfo,
    pub head_code: Option<u16>,
    pub head_taken: bool,
    pub planned_len: usize,
    pub planned_end: BodyEnd,
    pub delivered: Vec<u8>,
    pub saw_eof: bool,
    pub saw_err: bool,
    pub timed_out: bool,
    pub dropped: bool,
    pub finished: bool,
}

type Server = Box<dyn FnMut(&RequestInfo) -> Plan>;

#[derive(Default)]
struct Net {
    server: Option<Server>,
    reqs: Vec<Req>,
    clients: u32,
}

thread_local! {
    static NET: RefCell<Net> = RefCell::new(Net::default());
}

/// Install the server script for this thread's run (also clears the request log).
pub fn install(server: impl FnMut(&RequestInfo) -> Plan + 'static) {
    NET.with(|n| {
        let mut n = n.borrow_mut();
        n.server = Some(Box::new(server));
        n.reqs.clear();
        n.clients = 0;
    })
}

pub fn uninstall() {
    NET.with(|n| {
        let mut n = n.borrow_mut();
        n.server = None;
        n.reqs.clear();
    })
}

pub(crate) fn next_client_id() -> u32 {
    NET.try_with(|n| {
        let mut n = n.borrow_mut();
        n.clients += 1;
        n.clients
    })
    .unwrap_or(0)
}

pub fn request_count() -> usize {
    NET.with(|n| n.borrow().reqs.len())
}

pub fn snapshot(id: usize) -> ReqSnapshot {
    NET.with(|n| snap(&n.borrow().reqs[id]))
}

pub fn snapshots() -> Vec<ReqSnapshot> {
    NET.with(|n| n.borrow().reqs.iter().map(snap).collect())
}

/// Requests whose exchange is still open (not finished, not dropped).
pub fn in_flight() -> usize {
    NET.with(|n| {
        n.borrow()
            .reqs
            .iter()
            .filter(|r| !r.finished && !r.dropped)
            .count()
    })
}

fn snap(r: &Req) -> ReqSnapshot {
    ReqSnapshot {
        info: r.info.clone(),
        head_code: match &r.plan.head {
            Head::Status { code, .. } => Some(*code),
            Head::ConnectError => None,
        },
        head_taken: r.head_taken,
        planned_len: r.plan.body.len(),
        planned_end: r.plan.end,
        delivered: r.delivered.clone(),
        saw_eof: r.saw_eof,
        saw_err: r.saw_err,
        timed_out: r.timed_out,
        dropped: r.dropped,
        finished: r.finished,
    }
}

pub struct ReqHandle {
    pub(crate) id: usize,
}

impl Drop for ReqHandle {
    fn drop(&mut self) {
        let id = self.id;
        let events = NET
            .try_with(|n| {
                let mut n = match n.try_borrow_mut() {
                    Ok(n) => n,
                    Err(_) => return Vec::new(),
                };
                if let Some(r) = n.reqs.get_mut(id) {
                    if !r.finished {
                        r.dropped = true;
                        if simkit::ctx::has_ctx() {
                            simkit::probe("net.dropped_unfinished");
                        }
                    }
                    r.waker = None;
                    std::mem::take(&mut r.events)
                } else {
                    Vec::new()
                }
            })
            .unwrap_or_default();
        if simkit::ctx::has_ctx() {
            for e in events {
                simkit::ctx::cancel_event(e);
            }
        }
    }
}

fn normalise_sizes(plan: &Plan) -> Vec<usize> {
    let mut sizes = Vec::new();
    let mut left = plan.body.len();
    for &s in &plan.chunks {
        if left == 0 {
            break;
        }
        if s == 0 {
            continue;
        }
        let s = s.min(left);
        sizes.push(s);
        left -= s;
    }
    if left > 0 {
        sizes.push(left);
    }
    sizes
}

fn wake(id: usize) {
    let w = NET.with(|n| n.borrow_mut().reqs[id].waker.take());
    if let Some(w) = w {
        w.wake();
    }
}

fn register(info: RequestInfo, plan: Plan) -> usize {
    NET.with(|n| {
        let mut n = n.borrow_mut();
        let id = n.reqs.len();
        let sizes = normalise_sizes(&plan);
        let mut info = info;
        info.id = id;
        // pre-sized so that recording the delivered bytes never allocates during a run
        // (the engines meter the heap of the code under test)
        let delivered_cap = plan.body.len();
        n.reqs.push(Req {
            info,
            plan,
            sizes,
            head_ready: false,
            head_taken: false,
            next_chunk: 0,
            offset: 0,
            chunk_ready: false,
            chunk_requested: false,
            end_ready: false,
            end_requested: false,
            waker: None,
            timed_out: false,
            events: Vec::new(),
            dropped: false,
            dropped_at_step: None,
            delivered: Vec::with_capacity(delivered_cap),
            saw_eof: false,
            saw_err: false,
            finished: false,
            polls_after_end: 0,
        });
        id
    })
}

pub(crate) fn start_request(client: &Client, url: &Url, origin: &Url, deadline: Option<u64>) -> ReqHandle {
    let now = simkit::now();
    let info = RequestInfo {
        id: NET.with(|n| n.borrow().reqs.len()),
        url: url.as_str().to_string(),
        origin_url: origin.as_str().to_string(),
        client: client.id,
        follows_redirects: client.follow,
        deadline,
        at: now,
    };
    // Call the script without holding the borrow (it draws from the tape).
    let mut server = NET
        .with(|n| n.borrow_mut().server.take())
        .expect("reqwest-sim: no server script installed on this thread");
    let plan = server(&info);
    NET.with(|n| n.borrow_mut().server = Some(server));
    simkit::trace("net.request", simkit::rng::hash_bytes(info.url.as_bytes()), client.id as u64);
    simkit::log_line(|| format!("net: GET {} (client {}) -> {:?} body={}B end={:?}", info.url, info.client, plan.head, plan.body.len(), plan.end));
    let head_delay = plan.head_delay;
    let id = register(info, plan);
    let mut evs = Vec::new();
    if let Some(dl) = deadline {
        let delay = dl.saturating_sub(now);
        evs.push(simkit::schedule("net.deadline", delay, move || {
            let fire = NET.with(|n| {
                let mut n = n.borrow_mut();
                let r = &mut n.reqs[id];
                if r.finished || r.dropped {
                    false
                } else {
                    r.timed_out = true;
                    true
                }
            });
            if fire {
                simkit::probe("net.timeout_fired");
                wake(id);
            }
        }));
    }
    if head_delay == 0 {
        NET.with(|n| n.borrow_mut().reqs[id].head_ready = true);
    } else {
        evs.push(simkit::schedule("net.head", head_delay, move || {
            NET.with(|n| n.borrow_mut().reqs[id].head_ready = true);
            wake(id);
        }));
    }
    NET.with(|n| n.borrow_mut().reqs[id].events = evs);
    ReqHandle { id }
}

/// Build a `Response` directly from a plan (no client, head already received): lets an engine
/// drive `SymbolFile::parse_async` on its own.
pub fn response_from_plan(url: &str, plan: Plan) -> crate::Response {
    let u = Url::parse(url).expect("url");
    let info = RequestInfo {
        id: 0,
        url: url.to_string(),
        origin_url: url.to_string(),
        client: 0,
        follows_redirects: false,
        deadline: None,
        at: simkit::now(),
    };
    let (status, headers) = match &plan.head {
        Head::Status { code, headers } => (
            StatusCode::from_u16(*code).unwrap_or(StatusCode::OK),
            to_header_map(headers),
        ),
        Head::ConnectError => (StatusCode::OK, HeaderMap::new()),
    };
    let id = register(info, plan);
    NET.with(|n| {
        let mut n = n.borrow_mut();
        n.reqs[id].head_ready = true;
        n.reqs[id].head_taken = true;
    });
    crate::Response {
        handle: ReqHandle { id },
        status,
        headers,
        url: u,
    }
}

fn to_header_map(h: &[(String, String)]) -> HeaderMap {
    let mut m = HeaderMap::new();
    for (k, v) in h {
        if let (Ok(k), Ok(v)) = (
            HeaderName::from_bytes(k.as_bytes()),
            HeaderValue::from_str(v),
        ) {
            m.insert(k, v);
        }
    }
    m
}

pub(crate) struct HeadFuture<'a> {
    pub req: &'a ReqHandle,
}

impl Future for HeadFuture<'_> {
    type Output = Result<(StatusCode, HeaderMap), Kind>;
    fn poll(self: Pin<&mut Self>, cx: &mut Context<'_>) -> Poll<Self::Output> {
        let id = self.req.id;
        NET.with(|n| {
            let mut n = n.borrow_mut();
            let r = &mut n.reqs[id];
            if r.timed_out {
                r.finished = true;
                r.saw_err = true;
                return Poll::Ready(Err(Kind::Timeout));
            }
            if r.head_ready {
                r.head_taken = true;
                return match &r.plan.head {
                    Head::ConnectError => {
                        r.finished = true;
                        r.saw_err = true;
                        simkit::probe("net.connect_error");
                        Poll::Ready(Err(Kind::Connect))
                    }
                    Head::Status { code, headers } => {
                        let status = StatusCode::from_u16(*code).unwrap_or(StatusCode::OK);
                        simkit::trace("net.head", id as u64, *code as u64);
                        Poll::Ready(Ok((status, to_header_map(headers))))
                    }
                };
            }
            r.waker = Some(cx.waker().clone());
            Poll::Pending
        })
    }
}

pub(crate) struct ChunkFuture<'a> {
    pub req: &'a ReqHandle,
}

enum Arm {
    Chunk(u64),
    End(u64),
}

impl Future for ChunkFuture<'_> {
    type Output = Result<Option<bytes::Bytes>, Kind>;
    fn poll(self: Pin<&mut Self>, cx: &mut Context<'_>) -> Poll<Self::Output> {
        let id = self.req.id;
        let mut arm: Option<Arm> = None;
        let out = NET.with(|n| {
            let mut n = n.borrow_mut();
            let r = &mut n.reqs[id];
            if r.saw_eof {
                // A client that keeps asking a finished body for more, without end, is spinning.
                r.polls_after_end += 1;
                if r.polls_after_end > 200_000 {
                    simkit::runner::trip(
                        "stream.polled_after_end",
                        "the response body was asked for another chunk more than 200000 times after its end (the consumer does not terminate)",
                    );
                }
                return Poll::Ready(Ok(None));
            }
            if r.timed_out {
                r.finished = true;
                r.saw_err = true;
                return Poll::Ready(Err(Kind::Timeout));
            }
            if r.saw_err {
                return Poll::Ready(Err(Kind::Body));
            }
            if r.next_chunk < r.sizes.len() {
                let i = r.next_chunk;
                let delay = r.plan.chunk_delays.get(i).copied().unwrap_or(0);
                if !r.chunk_ready && !r.chunk_requested && delay == 0 {
                    r.chunk_ready = true;
                }
                if r.chunk_ready {
                    let size = r.sizes[i];
                    let bytes = r.plan.body[r.offset..r.offset + size].to_vec();
                    r.offset += size;
                    r.next_chunk += 1;
                    r.chunk_ready = false;
                    r.chunk_requested = false;
                    r.delivered.extend_from_slice(&bytes);
                    simkit::trace("net.chunk", id as u64, size as u64);
                    simkit::probe("net.chunk_delivered");
                    return Poll::Ready(Ok(Some(bytes::Bytes::from(bytes))));
                }
                if !r.chunk_requested {
                    r.chunk_requested = true;
                    arm = Some(Arm::Chunk(delay));
                }
                r.waker = Some(cx.waker().clone());
                return Poll::Pending;
            }
            // body exhausted: the end
            match r.plan.end {
                BodyEnd::Stall => {
                    simkit::probe("net.stalled");
                    r.waker = Some(cx.waker().clone());
                    Poll::Pending
                }
                end => {
                    if !r.end_ready && !r.end_requested && r.plan.end_delay == 0 {
                        r.end_ready = true;
                    }
                    if r.end_ready {
                        r.finished = true;
                        if end == BodyEnd::Clean {
                            r.saw_eof = true;
                            simkit::trace("net.eof", id as u64, r.offset as u64);
                            Poll::Ready(Ok(None))
                        } else {
                            r.saw_err = true;
                            simkit::trace("net.reset", id as u64, r.offset as u64);
                            simkit::probe("net.reset_delivered");
                            Poll::Ready(Err(Kind::Body))
                        }
                    } else {
                        if !r.end_requested {
                            r.end_requested = true;
                            arm = Some(Arm::End(r.plan.end_delay));
                        }
                        r.waker = Some(cx.waker().clone());
                        Poll::Pending
                    }
                }
            }
        });
        match arm {
            Some(Arm::Chunk(delay)) => {
                let ev = simkit::schedule("net.chunk", delay, move || {
                    NET.with(|n| n.borrow_mut().reqs[id].chunk_ready = true);
                    wake(id);
                });
                NET.with(|n| n.borrow_mut().reqs[id].events.push(ev));
            }
            Some(Arm::End(delay)) => {
                let ev = simkit::schedule("net.end", delay, move || {
                    NET.with(|n| n.borrow_mut().reqs[id].end_ready = true);
                    wake(id);
                });
                NET.with(|n| n.borrow_mut().reqs[id].events.push(ev));
            }
            None => {}
        }
        if out.is_ready() {
            // finished exchanges no longer need their deadline
            let (fin, evs) = NET.with(|n| {
                let mut n = n.borrow_mut();
                let r = &mut n.reqs[id];
                if r.finished {
                    (true, std::mem::take(&mut r.events))
                } else {
                    (false, Vec::new())
                }
            });
            if fin {
                for e in evs {
                    simkit::ctx::cancel_event(e);
                }
            }
        }
        out
    }
}

#[allow(dead_code)]
fn _unused(r: &Req) -> Option<u64> {
    r.dropped_at_step
}
