//! Stand-in for `reqwest` 0.12 (HTTP/1 client) under the deterministic simulator.
//!
//! `breakpad-symbols/src/http.rs` and `SymbolFile::parse_async` compile against this crate
//! unchanged.  Every completion (response head, each body chunk, errors, timeouts) happens
//! when the simulator's event loop says so; the server is a script installed by the engine.
//!
//! Model notes (see DESIGN.md §2.3, §7): body chunks are never empty; a request timeout covers
//! the whole exchange up to the end of the body; redirects are followed (max 10) unless the
//! client was built with `redirect::Policy::none()`; no transparent decompression.

use std::fmt;
use std::time::Duration;

pub use http::header;
pub use http::HeaderMap;
pub use http::StatusCode;
pub use url::Url;

pub mod sim;

pub mod redirect {
    #[derive(Debug, Clone)]
    pub struct Policy {
        pub(crate) follow: bool,
    }
    impl Policy {
        pub fn none() -> Policy {
            Policy { follow: false }
        }
        pub fn limited(_max: usize) -> Policy {
            Policy { follow: true }
        }
    }
    impl Default for Policy {
        fn default() -> Self {
            Policy { follow: true }
        }
    }
}

#[derive(Debug, Clone, PartialEq, Eq)]
pub(crate) enum Kind {
    Connect,
    Timeout,
    Status(u16),
    Body,
    Redirect,
    Builder,
}

pub struct Error {
    pub(crate) kind: Kind,
    pub(crate) url: Option<Url>,
}

impl Error {
    pub(crate) fn new(kind: Kind, url: Option<Url>) -> Error {
        Error { kind, url }
    }
    pub fn is_timeout(&self) -> bool {
        self.kind == Kind::Timeout
    }
    pub fn is_connect(&self) -> bool {
        self.kind == Kind::Connect
    }
    pub fn is_status(&self) -> bool {
        matches!(self.kind, Kind::Status(_))
    }
    pub fn is_body(&self) -> bool {
        self.kind == Kind::Body
    }
    pub fn is_redirect(&self) -> bool {
        self.kind == Kind::Redirect
    }
    pub fn status(&self) -> Option<StatusCode> {
        match self.kind {
            Kind::Status(c) => StatusCode::from_u16(c).ok(),
            _ => None,
        }
    }
    pub fn url(&self) -> Option<&Url> {
        self.url.as_ref()
    }
}

impl fmt::Debug for Error {
    fn fmt(&self, f: &mut fmt::Formatter<'_>) -> fmt::Result {
        write!(f, "reqwest-sim::Error({:?}, {:?})", self.kind, self.url.as_ref().map(|u| u.as_str()))
    }
}
impl fmt::Display for Error {
    fn fmt(&self, f: &mut fmt::Formatter<'_>) -> fmt::Result {
        match &self.kind {
            Kind::Connect => write!(f, "error sending request (simulated connect error)"),
            Kind::Timeout => write!(f, "operation timed out (simulated)"),
            Kind::Status(c) => write!(f, "HTTP status error ({c})"),
            Kind::Body => write!(f, "error decoding response body (simulated connection reset)"),
            Kind::Redirect => write!(f, "too many redirects"),
            Kind::Builder => write!(f, "builder error"),
        }
    }
}
impl std::error::Error for Error {}

pub type Result<T> = std::result::Result<T, Error>;

pub trait IntoUrl {
    fn into_url(self) -> Result<Url>;
}
impl IntoUrl for Url {
    fn into_url(self) -> Result<Url> {
        Ok(self)
    }
}
impl IntoUrl for &Url {
    fn into_url(self) -> Result<Url> {
        Ok(self.clone())
    }
}
impl IntoUrl for &str {
    fn into_url(self) -> Result<Url> {
        Url::parse(self).map_err(|_| Error::new(Kind::Builder, None))
    }
}
impl IntoUrl for String {
    fn into_url(self) -> Result<Url> {
        Url::parse(&self).map_err(|_| Error::new(Kind::Builder, None))
    }
}
impl IntoUrl for &String {
    fn into_url(self) -> Result<Url> {
        Url::parse(self).map_err(|_| Error::new(Kind::Builder, None))
    }
}

#[derive(Debug, Clone)]
pub struct Client {
    pub(crate) id: u32,
    pub(crate) timeout: Option<Duration>,
    pub(crate) follow: bool,
}

#[derive(Debug, Default)]
pub struct ClientBuilder {
    timeout: Option<Duration>,
    policy: redirect::Policy,
}

impl ClientBuilder {
    pub fn new() -> ClientBuilder {
        ClientBuilder::default()
    }
    pub fn timeout(mut self, d: Duration) -> ClientBuilder {
        self.timeout = Some(d);
        self
    }
    pub fn redirect(mut self, p: redirect::Policy) -> ClientBuilder {
        self.policy = p;
        self
    }
    // Settings that have no counterpart in the simulated transport: accepted so that a change
    // which sets them still builds, and ignored.
    pub fn connect_timeout(self, _d: Duration) -> ClientBuilder {
        self
    }
    pub fn read_timeout(self, _d: Duration) -> ClientBuilder {
        self
    }
    pub fn pool_idle_timeout<D: Into<Option<Duration>>>(self, _d: D) -> ClientBuilder {
        self
    }
    pub fn pool_max_idle_per_host(self, _n: usize) -> ClientBuilder {
        self
    }
    pub fn user_agent<V: AsRef<str>>(self, _v: V) -> ClientBuilder {
        self
    }
    pub fn default_headers(self, _h: HeaderMap) -> ClientBuilder {
        self
    }
    pub fn gzip(self, _on: bool) -> ClientBuilder {
        self
    }
    pub fn no_gzip(self) -> ClientBuilder {
        self
    }
    pub fn tcp_nodelay(self, _on: bool) -> ClientBuilder {
        self
    }
    pub fn tcp_keepalive<D: Into<Option<Duration>>>(self, _d: D) -> ClientBuilder {
        self
    }
    pub fn http1_only(self) -> ClientBuilder {
        self
    }
    pub fn https_only(self, _on: bool) -> ClientBuilder {
        self
    }
    pub fn no_proxy(self) -> ClientBuilder {
        self
    }
    pub fn referer(self, _on: bool) -> ClientBuilder {
        self
    }
    pub fn build(self) -> Result<Client> {
        Ok(Client {
            id: sim::next_client_id(),
            timeout: self.timeout,
            follow: self.policy.follow,
        })
    }
}

impl Default for Client {
    fn default() -> Self {
        Client::new()
    }
}

impl Client {
    pub fn new() -> Client {
        ClientBuilder::new().build().unwrap()
    }
    pub fn builder() -> ClientBuilder {
        ClientBuilder::new()
    }
    pub fn get<U: IntoUrl>(&self, url: U) -> RequestBuilder {
        RequestBuilder {
            client: self.clone(),
            url: url.into_url(),
        }
    }
}

pub struct RequestBuilder {
    client: Client,
    url: Result<Url>,
}

impl RequestBuilder {
    /// Request headers, query additions and per-request settings are accepted and ignored by
    /// the simulated transport (the server script sees the URL only).
    pub fn header<K: AsRef<str>, V: AsRef<str>>(self, _k: K, _v: V) -> RequestBuilder {
        self
    }
    pub fn headers(self, _h: HeaderMap) -> RequestBuilder {
        self
    }
    pub fn timeout(mut self, d: Duration) -> RequestBuilder {
        self.client.timeout = Some(d);
        self
    }
    pub fn bearer_auth<T: std::fmt::Display>(self, _t: T) -> RequestBuilder {
        self
    }
    pub async fn send(self) -> Result<Response> {
        let mut url = self.url?;
        let origin = url.clone();
        let mut hops = 0;
        // One deadline for the whole exchange, redirects included.
        let deadline = self
            .client
            .timeout
            .map(|d| simkit::now().saturating_add(d.as_nanos().min(u64::MAX as u128) as u64));
        loop {
            let handle = sim::start_request(&self.client, &url, &origin, deadline);
            let head = sim::HeadFuture { req: &handle }.await;
            match head {
                Err(kind) => return Err(Error::new(kind, Some(url))),
                Ok((status, headers)) => {
                    let code = status.as_u16();
                    if self.client.follow && matches!(code, 301 | 302 | 303 | 307 | 308) {
                        if let Some(loc) = headers.get("location").and_then(|v| v.to_str().ok()) {
                            if let Ok(next) = url.join(loc) {
                                hops += 1;
                                if hops > 10 {
                                    return Err(Error::new(Kind::Redirect, Some(url)));
                                }
                                simkit::probe("net.redirect_followed");
                                drop(handle);
                                url = next;
                                continue;
                            }
                        }
                    }
                    return Ok(Response {
                        handle,
                        status,
                        headers,
                        url,
                    });
                }
            }
        }
    }
}

pub struct Response {
    pub(crate) handle: sim::ReqHandle,
    status: StatusCode,
    headers: HeaderMap,
    url: Url,
}

impl fmt::Debug for Response {
    fn fmt(&self, f: &mut fmt::Formatter<'_>) -> fmt::Result {
        write!(f, "Response({}, {})", self.status, self.url)
    }
}

impl Response {
    pub fn status(&self) -> StatusCode {
        self.status
    }
    pub fn headers(&self) -> &HeaderMap {
        &self.headers
    }
    pub fn url(&self) -> &Url {
        &self.url
    }
    pub fn content_length(&self) -> Option<u64> {
        self.headers
            .get("content-length")
            .and_then(|v| v.to_str().ok())
            .and_then(|s| s.parse().ok())
    }
    pub fn error_for_status(self) -> Result<Response> {
        if self.status.is_client_error() || self.status.is_server_error() {
            Err(Error::new(
                Kind::Status(self.status.as_u16()),
                Some(self.url.clone()),
            ))
        } else {
            Ok(self)
        }
    }
    pub async fn chunk(&mut self) -> Result<Option<bytes::Bytes>> {
        let r = sim::ChunkFuture { req: &self.handle }.await;
        r.map_err(|k| Error::new(k, Some(self.url.clone())))
    }
    pub async fn bytes(mut self) -> Result<bytes::Bytes> {
        let mut all = Vec::new();
        while let Some(c) = self.chunk().await? {
            all.extend_from_slice(&c);
        }
        Ok(bytes::Bytes::from(all))
    }
    pub fn error_for_status_ref(&self) -> Result<&Response> {
        if self.status.is_client_error() || self.status.is_server_error() {
            Err(Error::new(Kind::Status(self.status.as_u16()), Some(self.url.clone())))
        } else {
            Ok(self)
        }
    }
    pub fn remote_addr(&self) -> Option<std::net::SocketAddr> {
        None
    }
    pub async fn text(self) -> Result<String> {
        let b = self.bytes().await?;
        Ok(String::from_utf8_lossy(&b).into_owned())
    }
}
