//! Stand-in for `tempfile` 3.x as used by breakpad-symbols' `http.rs`.
//!
//! Same contract as the real crate on Linux: `NamedTempFile::new_in(dir)` creates a new,
//! uniquely named file with `O_EXCL` inside `dir`; dropping the handle unlinks it;
//! `persist_noclobber(p)` atomically gives the file the name `p` unless `p` exists
//! (`link` + `unlink`, which is what tempfile falls back to when `renameat2` is unavailable).
//! Every call is a *seam event*: the engine can inject a fault or an environment action
//! (a rival process creating the target) and observes the file system before and after.

use std::cell::RefCell;
use std::fs::{self, File, OpenOptions};
use std::io::{self, Write};
use std::path::{Path, PathBuf};

pub mod sim {
    use super::*;

    #[derive(Debug, Clone)]
    pub enum Op {
        Create { dir: PathBuf },
        Write { path: PathBuf, offset: u64, len: usize },
        Persist { from: PathBuf, to: PathBuf },
    }

    #[derive(Debug, Clone)]
    pub enum Fault {
        /// Perform the operation normally.
        None,
        /// Fail with this raw OS error (`ENOSPC`, `EIO`, `EACCES`, …) before doing anything.
        Errno(i32),
        /// `write` only: `Err(Interrupted)`; `write_all` retries.
        Interrupted,
        /// `write` only: write `k` bytes (1 ≤ k < len) and report `Ok(k)`.
        Short(usize),
        /// `write` only: write `k` bytes, then fail with `errno` (a torn write followed by an error).
        TornThenErrno(usize, i32),
    }

    #[derive(Debug, Clone)]
    pub enum Event {
        Created { path: PathBuf },
        CreateFailed { dir: PathBuf },
        Wrote { path: PathBuf, offset: u64, requested: usize, written: usize, failed: bool },
        /// Emitted immediately before the link step; an engine may act as a rival process here.
        PersistBegin { from: PathBuf, to: PathBuf },
        Persisted { from: PathBuf, to: PathBuf, ok: bool },
        Dropped { path: PathBuf, removed: bool },
    }

    pub type Decide = Box<dyn FnMut(&Op) -> Fault>;
    pub type Observe = Box<dyn FnMut(&Event)>;

    #[derive(Default)]
    pub(crate) struct State {
        pub counter: u64,
        pub decide: Option<Decide>,
        pub observe: Option<Observe>,
    }

    thread_local! {
        pub(crate) static STATE: RefCell<State> = RefCell::new(State::default());
    }

    /// Install the fault decision and observation callbacks for this thread's run.
    pub fn install(decide: Option<Decide>, observe: Option<Observe>) {
        STATE.with(|s| {
            let mut s = s.borrow_mut();
            s.counter = 0;
            s.decide = decide;
            s.observe = observe;
        })
    }

    pub fn uninstall() {
        STATE.with(|s| {
            let mut s = s.borrow_mut();
            s.decide = None;
            s.observe = None;
        })
    }

    pub(crate) fn decide(op: &Op) -> Fault {
        // take the closure out while it runs: it may touch the file system or the tape
        let d = STATE.try_with(|s| s.borrow_mut().decide.take()).ok().flatten();
        match d {
            Some(mut f) => {
                let r = f(op);
                let _ = STATE.try_with(|s| s.borrow_mut().decide = Some(f));
                r
            }
            None => Fault::None,
        }
    }

    pub(crate) fn observe(ev: Event) {
        let o = STATE.try_with(|s| s.borrow_mut().observe.take()).ok().flatten();
        if let Some(mut f) = o {
            f(&ev);
            let _ = STATE.try_with(|s| s.borrow_mut().observe = Some(f));
        }
    }

    pub(crate) fn next_name() -> String {
        STATE
            .try_with(|s| {
                let mut s = s.borrow_mut();
                s.counter += 1;
                format!(".simtmp-{:04}", s.counter)
            })
            .unwrap_or_else(|_| ".simtmp-x".to_string())
    }
}

use sim::{Event, Fault, Op};

pub struct NamedTempFile {
    file: Option<File>,
    path: PathBuf,
    offset: u64,
    persisted: bool,
}

impl std::fmt::Debug for NamedTempFile {
    fn fmt(&self, f: &mut std::fmt::Formatter<'_>) -> std::fmt::Result {
        write!(f, "NamedTempFile({:?})", self.path)
    }
}

pub struct PersistError {
    pub error: io::Error,
    pub file: NamedTempFile,
}

impl std::fmt::Debug for PersistError {
    fn fmt(&self, f: &mut std::fmt::Formatter<'_>) -> std::fmt::Result {
        write!(f, "PersistError({:?})", self.error)
    }
}
impl std::fmt::Display for PersistError {
    fn fmt(&self, f: &mut std::fmt::Formatter<'_>) -> std::fmt::Result {
        write!(f, "failed to persist temporary file: {}", self.error)
    }
}
impl std::error::Error for PersistError {}
impl From<PersistError> for io::Error {
    fn from(e: PersistError) -> io::Error {
        e.error
    }
}
impl From<PersistError> for NamedTempFile {
    fn from(e: PersistError) -> NamedTempFile {
        e.file
    }
}

impl NamedTempFile {
    pub fn new_in<P: AsRef<Path>>(dir: P) -> io::Result<NamedTempFile> {
        let dir = dir.as_ref().to_path_buf();
        match sim::decide(&Op::Create { dir: dir.clone() }) {
            Fault::Errno(e) => {
                sim::observe(Event::CreateFailed { dir });
                return Err(io::Error::from_raw_os_error(e));
            }
            _ => {}
        }
        for _ in 0..1000 {
            let path = dir.join(sim::next_name());
            match OpenOptions::new().write(true).read(true).create_new(true).open(&path) {
                Ok(file) => {
                    sim::observe(Event::Created { path: path.clone() });
                    return Ok(NamedTempFile {
                        file: Some(file),
                        path,
                        offset: 0,
                        persisted: false,
                    });
                }
                Err(e) if e.kind() == io::ErrorKind::AlreadyExists => continue,
                Err(e) => {
                    sim::observe(Event::CreateFailed { dir });
                    return Err(e);
                }
            }
        }
        Err(io::Error::new(io::ErrorKind::AlreadyExists, "too many temporary files exist"))
    }

    pub fn new() -> io::Result<NamedTempFile> {
        NamedTempFile::new_in(std::env::temp_dir())
    }

    /// Created by [`Builder`]: `open` creates the file at the chosen path.
    fn make_named<F>(dir: &Path, b: &Builder<'_, '_>, mut open: F) -> io::Result<NamedTempFile>
    where
        F: FnMut(&Path) -> io::Result<File>,
    {
        let dir = dir.to_path_buf();
        if let Fault::Errno(e) = sim::decide(&Op::Create { dir: dir.clone() }) {
            sim::observe(Event::CreateFailed { dir });
            return Err(io::Error::from_raw_os_error(e));
        }
        let tries = if b.random_len == 0 { 1 } else { 1000 };
        for _ in 0..tries {
            let mut name = std::ffi::OsString::from(b.prefix);
            if b.random_len > 0 {
                // the simulator's counter, padded or cut to the requested length
                let n = sim::next_name();
                let digits: String = n.chars().filter(|c| c.is_ascii_alphanumeric()).collect();
                let mut r: String = digits.chars().rev().take(b.random_len).collect::<String>().chars().rev().collect();
                while r.len() < b.random_len {
                    r.insert(0, '0');
                }
                name.push(r);
            }
            name.push(b.suffix);
            let path = dir.join(name);
            match open(&path) {
                Ok(file) => {
                    sim::observe(Event::Created { path: path.clone() });
                    return Ok(NamedTempFile { file: Some(file), path, offset: 0, persisted: b.keep });
                }
                Err(e) if e.kind() == io::ErrorKind::AlreadyExists && b.random_len > 0 => continue,
                Err(e) => {
                    sim::observe(Event::CreateFailed { dir });
                    return Err(e);
                }
            }
        }
        Err(io::Error::new(io::ErrorKind::AlreadyExists, "too many temporary files exist"))
    }

    /// Close the handle, keep the name: the file is removed when the `TempPath` is dropped.
    pub fn into_temp_path(mut self) -> TempPath {
        self.file.take();
        let path = std::mem::take(&mut self.path);
        let keep = self.persisted;
        self.persisted = true; // nothing left for our own Drop to do
        TempPath { path, keep }
    }

    pub fn into_parts(mut self) -> (File, TempPath) {
        let file = self.file.take().unwrap();
        let path = std::mem::take(&mut self.path);
        let keep = self.persisted;
        self.persisted = true;
        (file, TempPath { path, keep })
    }

    pub fn into_file(self) -> File {
        self.into_parts().0
    }

    pub fn reopen(&self) -> io::Result<File> {
        OpenOptions::new().read(true).write(true).open(&self.path)
    }

    pub fn close(self) -> io::Result<()> {
        self.into_temp_path().close()
    }

    pub fn path(&self) -> &Path {
        &self.path
    }
    pub fn as_file(&self) -> &File {
        self.file.as_ref().unwrap()
    }
    pub fn as_file_mut(&mut self) -> &mut File {
        self.file.as_mut().unwrap()
    }

    pub fn persist_noclobber<P: AsRef<Path>>(mut self, new_path: P) -> Result<File, PersistError> {
        let to = new_path.as_ref().to_path_buf();
        let from = self.path.clone();
        let fault = sim::decide(&Op::Persist { from: from.clone(), to: to.clone() });
        if let Fault::Errno(e) = fault {
            sim::observe(Event::Persisted { from, to, ok: false });
            return Err(PersistError {
                error: io::Error::from_raw_os_error(e),
                file: self,
            });
        }
        sim::observe(Event::PersistBegin { from: from.clone(), to: to.clone() });
        // link(2) fails with EEXIST if the target exists: atomic no-clobber publication.
        match fs::hard_link(&from, &to) {
            Ok(()) => {
                let _ = fs::remove_file(&from);
                self.persisted = true;
                sim::observe(Event::Persisted { from, to, ok: true });
                Ok(self.file.take().unwrap())
            }
            Err(error) => {
                sim::observe(Event::Persisted { from, to, ok: false });
                Err(PersistError { error, file: self })
            }
        }
    }

    /// Clobbering variant (rename).  Not used by the unchanged code; present so that a change
    /// switching to it still builds and is then judged by the oracles.
    pub fn persist<P: AsRef<Path>>(mut self, new_path: P) -> Result<File, PersistError> {
        let to = new_path.as_ref().to_path_buf();
        let from = self.path.clone();
        let fault = sim::decide(&Op::Persist { from: from.clone(), to: to.clone() });
        if let Fault::Errno(e) = fault {
            sim::observe(Event::Persisted { from, to, ok: false });
            return Err(PersistError {
                error: io::Error::from_raw_os_error(e),
                file: self,
            });
        }
        sim::observe(Event::PersistBegin { from: from.clone(), to: to.clone() });
        match fs::rename(&from, &to) {
            Ok(()) => {
                self.persisted = true;
                sim::observe(Event::Persisted { from, to, ok: true });
                Ok(self.file.take().unwrap())
            }
            Err(error) => {
                sim::observe(Event::Persisted { from, to, ok: false });
                Err(PersistError { error, file: self })
            }
        }
    }

    /// Keep the file under its temporary name.
    pub fn keep(mut self) -> Result<(File, PathBuf), PersistError> {
        self.persisted = true;
        Ok((self.file.take().unwrap(), self.path.clone()))
    }
}

impl Write for NamedTempFile {
    fn write(&mut self, buf: &[u8]) -> io::Result<usize> {
        if buf.is_empty() {
            return Ok(0);
        }
        let fault = sim::decide(&Op::Write {
            path: self.path.clone(),
            offset: self.offset,
            len: buf.len(),
        });
        let file = self.file.as_mut().unwrap();
        let (res, written, failed) = match fault {
            Fault::None => {
                // one write(2); the kernel may itself write short, which is passed on
                match file.write(buf) {
                    Ok(n) => (Ok(n), n, false),
                    Err(e) => (Err(e), 0, true),
                }
            }
            Fault::Errno(e) => (Err(io::Error::from_raw_os_error(e)), 0, true),
            Fault::Interrupted => (Err(io::Error::from(io::ErrorKind::Interrupted)), 0, false),
            Fault::Short(k) => {
                let k = k.clamp(1, buf.len());
                match file.write_all(&buf[..k]) {
                    Ok(()) => (Ok(k), k, false),
                    Err(e) => (Err(e), 0, true),
                }
            }
            Fault::TornThenErrno(k, e) => {
                let k = k.min(buf.len());
                let _ = file.write_all(&buf[..k]);
                (Err(io::Error::from_raw_os_error(e)), k, true)
            }
        };
        self.offset += written as u64;
        sim::observe(Event::Wrote {
            path: self.path.clone(),
            offset: self.offset - written as u64,
            requested: buf.len(),
            written,
            failed,
        });
        res
    }
    fn flush(&mut self) -> io::Result<()> {
        self.file.as_mut().unwrap().flush()
    }
}

impl Drop for NamedTempFile {
    fn drop(&mut self) {
        if !self.persisted {
            self.file.take();
            let removed = fs::remove_file(&self.path).is_ok();
            sim::observe(Event::Dropped {
                path: self.path.clone(),
                removed,
            });
        }
    }
}

impl std::io::Read for NamedTempFile {
    fn read(&mut self, buf: &mut [u8]) -> io::Result<usize> {
        self.file.as_mut().unwrap().read(buf)
    }
}
impl std::io::Seek for NamedTempFile {
    fn seek(&mut self, pos: io::SeekFrom) -> io::Result<u64> {
        let p = self.file.as_mut().unwrap().seek(pos)?;
        self.offset = p;
        Ok(p)
    }
}

/// The name of a temporary file whose handle was closed or split off.
pub struct TempPath {
    path: PathBuf,
    keep: bool,
}
impl TempPath {
    pub fn close(mut self) -> io::Result<()> {
        let r = fs::remove_file(&self.path);
        sim::observe(Event::Dropped { path: self.path.clone(), removed: r.is_ok() });
        self.keep = true;
        r
    }
    pub fn keep(mut self) -> Result<PathBuf, PathPersistError> {
        self.keep = true;
        Ok(std::mem::take(&mut self.path))
    }
    pub fn persist<P: AsRef<Path>>(mut self, new_path: P) -> Result<(), PathPersistError> {
        let to = new_path.as_ref().to_path_buf();
        let from = self.path.clone();
        if let Fault::Errno(e) = sim::decide(&Op::Persist { from: from.clone(), to: to.clone() }) {
            sim::observe(Event::Persisted { from, to, ok: false });
            return Err(PathPersistError { error: io::Error::from_raw_os_error(e), path: self });
        }
        sim::observe(Event::PersistBegin { from: from.clone(), to: to.clone() });
        match fs::rename(&from, &to) {
            Ok(()) => {
                self.keep = true;
                sim::observe(Event::Persisted { from, to, ok: true });
                Ok(())
            }
            Err(error) => {
                sim::observe(Event::Persisted { from, to, ok: false });
                Err(PathPersistError { error, path: self })
            }
        }
    }
    pub fn persist_noclobber<P: AsRef<Path>>(mut self, new_path: P) -> Result<(), PathPersistError> {
        let to = new_path.as_ref().to_path_buf();
        let from = self.path.clone();
        if let Fault::Errno(e) = sim::decide(&Op::Persist { from: from.clone(), to: to.clone() }) {
            sim::observe(Event::Persisted { from, to, ok: false });
            return Err(PathPersistError { error: io::Error::from_raw_os_error(e), path: self });
        }
        sim::observe(Event::PersistBegin { from: from.clone(), to: to.clone() });
        match fs::hard_link(&from, &to) {
            Ok(()) => {
                let _ = fs::remove_file(&from);
                self.keep = true;
                sim::observe(Event::Persisted { from, to, ok: true });
                Ok(())
            }
            Err(error) => {
                sim::observe(Event::Persisted { from, to, ok: false });
                Err(PathPersistError { error, path: self })
            }
        }
    }
}
impl std::ops::Deref for TempPath {
    type Target = Path;
    fn deref(&self) -> &Path {
        &self.path
    }
}
impl AsRef<Path> for TempPath {
    fn as_ref(&self) -> &Path {
        &self.path
    }
}
impl std::fmt::Debug for TempPath {
    fn fmt(&self, f: &mut std::fmt::Formatter<'_>) -> std::fmt::Result {
        write!(f, "TempPath({:?})", self.path)
    }
}
impl Drop for TempPath {
    fn drop(&mut self) {
        if !self.keep {
            let removed = fs::remove_file(&self.path).is_ok();
            sim::observe(Event::Dropped { path: self.path.clone(), removed });
        }
    }
}
pub struct PathPersistError {
    pub error: io::Error,
    pub path: TempPath,
}
impl std::fmt::Debug for PathPersistError {
    fn fmt(&self, f: &mut std::fmt::Formatter<'_>) -> std::fmt::Result {
        write!(f, "PathPersistError({:?})", self.error)
    }
}
impl std::fmt::Display for PathPersistError {
    fn fmt(&self, f: &mut std::fmt::Formatter<'_>) -> std::fmt::Result {
        write!(f, "failed to persist temporary file path: {}", self.error)
    }
}
impl std::error::Error for PathPersistError {}
impl From<PathPersistError> for io::Error {
    fn from(e: PathPersistError) -> io::Error {
        e.error
    }
}

/// `tempfile::Builder`: names from a prefix, a (simulator-counted) middle part and a suffix.
pub struct Builder<'a, 'b> {
    random_len: usize,
    prefix: &'a std::ffi::OsStr,
    suffix: &'b std::ffi::OsStr,
    append: bool,
    keep: bool,
}
impl Default for Builder<'_, '_> {
    fn default() -> Self {
        Builder { random_len: 6, prefix: std::ffi::OsStr::new(".tmp"), suffix: std::ffi::OsStr::new(""), append: false, keep: false }
    }
}
impl<'a, 'b> Builder<'a, 'b> {
    pub fn new() -> Self {
        Self::default()
    }
    pub fn prefix<S: AsRef<std::ffi::OsStr> + ?Sized>(&mut self, prefix: &'a S) -> &mut Self {
        self.prefix = prefix.as_ref();
        self
    }
    pub fn suffix<S: AsRef<std::ffi::OsStr> + ?Sized>(&mut self, suffix: &'b S) -> &mut Self {
        self.suffix = suffix.as_ref();
        self
    }
    pub fn rand_bytes(&mut self, rand: usize) -> &mut Self {
        self.random_len = rand;
        self
    }
    pub fn append(&mut self, append: bool) -> &mut Self {
        self.append = append;
        self
    }
    pub fn keep(&mut self, keep: bool) -> &mut Self {
        self.keep = keep;
        self
    }
    pub fn disable_cleanup(&mut self, keep: bool) -> &mut Self {
        self.keep = keep;
        self
    }
    pub fn tempfile(&self) -> io::Result<NamedTempFile> {
        self.tempfile_in(std::env::temp_dir())
    }
    pub fn tempfile_in<P: AsRef<Path>>(&self, dir: P) -> io::Result<NamedTempFile> {
        let append = self.append;
        NamedTempFile::make_named(dir.as_ref(), self, |p| OpenOptions::new().read(true).write(true).append(append).create_new(true).open(p))
    }
    pub fn make<F>(&self, f: F) -> io::Result<NamedTempFile>
    where
        F: FnMut(&Path) -> io::Result<File>,
    {
        self.make_in(std::env::temp_dir(), f)
    }
    pub fn make_in<F, P>(&self, dir: P, f: F) -> io::Result<NamedTempFile>
    where
        F: FnMut(&Path) -> io::Result<File>,
        P: AsRef<Path>,
    {
        NamedTempFile::make_named(dir.as_ref(), self, f)
    }
    pub fn tempdir(&self) -> io::Result<TempDir> {
        tempdir()
    }
    pub fn tempdir_in<P: AsRef<Path>>(&self, dir: P) -> io::Result<TempDir> {
        tempdir_in(dir)
    }
}

/// An unnamed temporary file (created and unlinked at once).
pub fn tempfile() -> io::Result<File> {
    tempfile_in(std::env::temp_dir())
}
pub fn tempfile_in<P: AsRef<Path>>(dir: P) -> io::Result<File> {
    let t = NamedTempFile::new_in(dir)?;
    let f = t.reopen()?;
    drop(t);
    Ok(f)
}
pub fn tempdir_in<P: AsRef<Path>>(dir: P) -> io::Result<TempDir> {
    let base = dir.as_ref();
    for i in 0..100000u32 {
        let p = base.join(format!(".simtmpdir-{}-{}", std::process::id(), i));
        if fs::create_dir(&p).is_ok() {
            return Ok(TempDir { path: p });
        }
    }
    Err(io::Error::new(io::ErrorKind::AlreadyExists, "no free temporary directory name"))
}

/// Minimal `tempdir` support (used by nothing under test; keeps dependants compiling).
pub struct TempDir {
    path: PathBuf,
}
impl TempDir {
    pub fn path(&self) -> &Path {
        &self.path
    }
}
impl Drop for TempDir {
    fn drop(&mut self) {
        let _ = fs::remove_dir_all(&self.path);
    }
}
pub fn tempdir() -> io::Result<TempDir> {
    let base = std::env::temp_dir();
    for i in 0..100000u32 {
        let p = base.join(format!(".simtmpdir-{}-{}", std::process::id(), i));
        if fs::create_dir(&p).is_ok() {
            return Ok(TempDir { path: p });
        }
    }
    Err(io::Error::new(io::ErrorKind::AlreadyExists, "tempdir"))
}

#[allow(dead_code)]
fn _unused() {
    let _ = RefCell::new(0);
}
