//! Stand-in for `tempfile` 3.x as used by breakpad-symbols' `http.rs`.
//!
//! Same contract as the real crate on Linux: `NamedTempFile::new_in(dir)` creates a new,
//! uniquely named file with `O_EXCL` inside `dir`; dropping the handle unlinks it;
//! `persist_noclobber(p)` atomically gives the file the name `p` unless `p` exists
//! (`link` + `unlink`, which is what tempfile falls back to when `renameat2` is unavailable).
//! Every call is a *seam event*: the engine can inject a fault or an environment action
//! (a rival process creating the target) and observes the file system before and after.

use std::cell::RefCell;
use std::fs::{self, File, OpenOptions};
use std::io::{self, Write};
use std::path::{Path, PathBuf};

pub mod sim {
    use super::*;

    #[derive(Debug, Clone)]
    pub enum Op {
        Create { dir: PathBuf },
        Write { path: PathBuf, offset: u64, len: usize },
        Persist { from: PathBuf, to: PathBuf },
    }

    #[derive(Debug, Clone)]
    pub enum Fault {
        /// Perform the operation normally.
        None,
        /// Fail with this raw OS error (`ENOSPC`, `EIO`, `EACCES`, …) before doing anything.
        Errno(i32),
        /// `write` only: `Err(Interrupted)`; `write_all` retries.
        Interrupted,
        /// `write` only: write `k` bytes (1 ≤ k < len) and report `Ok(k)`.
        Short(usize),
        /// `write` only: write `k` bytes, then fail with `errno` (a torn write followed by an error).
        TornThenErrno(usize, i32),
    }

    #[derive(Debug, Clone)]
    pub enum Event {
        Created { path: PathBuf },
        CreateFailed { dir: PathBuf },
        Wrote { path: PathBuf, offset: u64, requested: usize, written: usize, failed: bool },
        /// Emitted immediately before the link step; an engine may act as a rival process here.
        PersistBegin { from: PathBuf, to: PathBuf },
        Persisted { from: PathBuf, to: PathBuf, ok: bool },
        Dropped { path: PathBuf, removed: bool },
    }

    pub type Decide = Box<dyn FnMut(&Op) -> Fault>;
    pub type Observe = Box<dyn FnMut(&Event)>;

    #[derive(Default)]
    pub(crate) struct State {
        pub counter: u64,
        pub decide: Option<Decide>,
        pub observe: Option<Observe>,
    }

    thread_local! {
        pub(crate) static STATE: RefCell<State> = RefCell::new(State::default());
    }

    /// Install the fault decision and observation callbacks for this thread's run.
    pub fn install(decide: Option<Decide>, observe: Option<Observe>) {
        STATE.with(|s| {
            let mut s = s.borrow_mut();
            s.counter = 0;
            s.decide = decide;
            s.observe = observe;
        })
    }

    pub fn uninstall() {
        STATE.with(|s| {
            let mut s = s.borrow_mut();
            s.decide = None;
            s.observe = None;
        })
    }

    pub(crate) fn decide(op: &Op) -> Fault {
        // take the closure out while it runs: it may touch the file system or the tape
        let d = STATE.try_with(|s| s.borrow_mut().decide.take()).ok().flatten();
        match d {
            Some(mut f) => {
                let r = f(op);
                let _ = STATE.try_with(|s| s.borrow_mut().decide = Some(f));
                r
            }
            None => Fault::None,
        }
    }

    pub(crate) fn observe(ev: Event) {
        let o = STATE.try_with(|s| s.borrow_mut().observe.take()).ok().flatten();
        if let Some(mut f) = o {
            f(&ev);
            let _ = STATE.try_with(|s| s.borrow_mut().observe = Some(f));
        }
    }

    pub(crate) fn next_name() -> String {
        STATE
            .try_with(|s| {
                let mut s = s.borrow_mut();
                s.counter += 1;
                format!(".simtmp-{:04}", s.counter)
            })
            .unwrap_or_else(|_| ".simtmp-x".to_string())
    }
}

use sim::{Event, Fault, Op};

pub struct NamedTempFile {
    file: Option<File>,
    path: PathBuf,
    offset: u64,
    persisted: bool,
}

impl std::fmt::Debug for NamedTempFile {
    fn fmt(&self, f: &mut std::fmt::Formatter<'_>) -> std::fmt::Result {
        write!(f, "NamedTempFile({:?})", self.path)
    }
}

pub struct PersistError {
    pub error: io::Error,
    pub file: NamedTempFile,
}

impl std::fmt::Debug for PersistError {
    fn fmt(&self, f: &mut std::fmt::Formatter<'_>) -> std::fmt::Result {
        write!(f, "PersistError({:?})", self.error)
    }
}
impl std::fmt::Display for PersistError {
    fn fmt(&self, f: &mut std::fmt::Formatter<'_>) -> std::fmt::Result {
        write!(f, "failed to persist temporary file: {}", self.error)
    }
}
impl std::error::Error for PersistError {}
impl From<PersistError> for io::Error {
    fn from(e: PersistError) -> io::Error {
        e.error
    }
}
impl From<PersistError> for NamedTempFile {
    fn from(e: PersistError) -> NamedTempFile {
        e.file
    }
}

impl NamedTempFile {
    pub fn new_in<P: AsRef<Path>>(dir: P) -> io::Result<NamedTempFile> {
        let dir = dir.as_ref().to_path_buf();
        match sim::decide(&Op::Create { dir: dir.clone() }) {
            Fault::Errno(e) => {
                sim::observe(Event::CreateFailed { dir });
                return Err(io::Error::from_raw_os_error(e));
            }
            _ => {}
        }
        for _ in 0..1000 {
            let path = dir.join(sim::next_name());
            match OpenOptions::new().write(true).read(true).create_new(true).open(&path) {
                Ok(file) => {
                    sim::observe(Event::Created { path: path.clone() });
                    return Ok(NamedTempFile {
                        file: Some(file),
                        path,
                        offset: 0,
                        persisted: false,
                    });
                }
                Err(e) if e.kind() == io::ErrorKind::AlreadyExists => continue,
                Err(e) => {
                    sim::observe(Event::CreateFailed { dir });
                    return Err(e);
                }
            }
        }
        Err(io::Error::new(io::ErrorKind::AlreadyExists, "too many temporary files exist"))
    }

    pub fn new() -> io::Result<NamedTempFile> {
        NamedTempFile::new_in(std::env::temp_dir())
    }

    pub fn path(&self) -> &Path {
        &self.path
    }
    pub fn as_file(&self) -> &File {
        self.file.as_ref().unwrap()
    }
    pub fn as_file_mut(&mut self) -> &mut File {
        self.file.as_mut().unwrap()
    }

    pub fn persist_noclobber<P: AsRef<Path>>(mut self, new_path: P) -> Result<File, PersistError> {
        let to = new_path.as_ref().to_path_buf();
        let from = self.path.clone();
        let fault = sim::decide(&Op::Persist { from: from.clone(), to: to.clone() });
        if let Fault::Errno(e) = fault {
            sim::observe(Event::Persisted { from, to, ok: false });
            return Err(PersistError {
                error: io::Error::from_raw_os_error(e),
                file: self,
            });
        }
        sim::observe(Event::PersistBegin { from: from.clone(), to: to.clone() });
        // link(2) fails with EEXIST if the target exists: atomic no-clobber publication.
        match fs::hard_link(&from, &to) {
            Ok(()) => {
                let _ = fs::remove_file(&from);
                self.persisted = true;
                sim::observe(Event::Persisted { from, to, ok: true });
                Ok(self.file.take().unwrap())
            }
            Err(error) => {
                sim::observe(Event::Persisted { from, to, ok: false });
                Err(PersistError { error, file: self })
            }
        }
    }

    /// Clobbering variant (rename).  Not used by the unchanged code; present so that a change
    /// switching to it still builds and is then judged by the oracles.
    pub fn persist<P: AsRef<Path>>(mut self, new_path: P) -> Result<File, PersistError> {
        let to = new_path.as_ref().to_path_buf();
        let from = self.path.clone();
        let fault = sim::decide(&Op::Persist { from: from.clone(), to: to.clone() });
        if let Fault::Errno(e) = fault {
            sim::observe(Event::Persisted { from, to, ok: false });
            return Err(PersistError {
                error: io::Error::from_raw_os_error(e),
                file: self,
            });
        }
        sim::observe(Event::PersistBegin { from: from.clone(), to: to.clone() });
        match fs::rename(&from, &to) {
            Ok(()) => {
                self.persisted = true;
                sim::observe(Event::Persisted { from, to, ok: true });
                Ok(self.file.take().unwrap())
            }
            Err(error) => {
                sim::observe(Event::Persisted { from, to, ok: false });
                Err(PersistError { error, file: self })
            }
        }
    }

    /// Keep the file under its temporary name.
    pub fn keep(mut self) -> Result<(File, PathBuf), PersistError> {
        self.persisted = true;
        Ok((self.file.take().unwrap(), self.path.clone()))
    }
}

impl Write for NamedTempFile {
    fn write(&mut self, buf: &[u8]) -> io::Result<usize> {
        if buf.is_empty() {
            return Ok(0);
        }
        let fault = sim::decide(&Op::Write {
            path: self.path.clone(),
            offset: self.offset,
            len: buf.len(),
        });
        let file = self.file.as_mut().unwrap();
        let (res, written, failed) = match fault {
            Fault::None => {
                // one write(2); the kernel may itself write short, which is passed on
                match file.write(buf) {
                    Ok(n) => (Ok(n), n, false),
                    Err(e) => (Err(e), 0, true),
                }
            }
            Fault::Errno(e) => (Err(io::Error::from_raw_os_error(e)), 0, true),
            Fault::Interrupted => (Err(io::Error::from(io::ErrorKind::Interrupted)), 0, false),
            Fault::Short(k) => {
                let k = k.clamp(1, buf.len());
                match file.write_all(&buf[..k]) {
                    Ok(()) => (Ok(k), k, false),
                    Err(e) => (Err(e), 0, true),
                }
            }
            Fault::TornThenErrno(k, e) => {
                let k = k.min(buf.len());
                let _ = file.write_all(&buf[..k]);
                (Err(io::Error::from_raw_os_error(e)), k, true)
            }
        };
        self.offset += written as u64;
        sim::observe(Event::Wrote {
            path: self.path.clone(),
            offset: self.offset - written as u64,
            requested: buf.len(),
            written,
            failed,
        });
        res
    }
    fn flush(&mut self) -> io::Result<()> {
        self.file.as_mut().unwrap().flush()
    }
}

impl Drop for NamedTempFile {
    fn drop(&mut self) {
        if !self.persisted {
            self.file.take();
            let removed = fs::remove_file(&self.path).is_ok();
            sim::observe(Event::Dropped {
                path: self.path.clone(),
                removed,
            });
        }
    }
}

/// Minimal `tempdir` support (used by nothing under test; keeps dependants compiling).
pub struct TempDir {
    path: PathBuf,
}
impl TempDir {
    pub fn path(&self) -> &Path {
        &self.path
    }
}
impl Drop for TempDir {
    fn drop(&mut self) {
        let _ = fs::remove_dir_all(&self.path);
    }
}
pub fn tempdir() -> io::Result<TempDir> {
    let base = std::env::temp_dir();
    for i in 0..100000u32 {
        let p = base.join(format!(".simtmpdir-{}-{}", std::process::id(), i));
        if fs::create_dir(&p).is_ok() {
            return Ok(TempDir { path: p });
        }
    }
    Err(io::Error::new(io::ErrorKind::AlreadyExists, "tempdir"))
}

#[allow(dead_code)]
fn _unused() {
    let _ = RefCell::new(0);
}
