//! Ownership of std's per-thread SipHash keys.
//!
//! std obtains the `RandomState` keys of a thread through the interposable libc symbol
//! `getrandom` the first time a `HashMap` is created on that thread.  The harness *binary*
//! defines that symbol (via `define_getrandom!`) and every simulated execution runs on a
//! fresh thread, so the keys are a function of the seed installed here.

use std::cell::Cell;

thread_local! {
    static SEED: Cell<Option<u64>> = const { Cell::new(None) };
    static CTR: Cell<u64> = const { Cell::new(0) };
    static CALLS: Cell<u64> = const { Cell::new(0) };
}

pub fn set_thread_seed(seed: Option<u64>) {
    let _ = SEED.try_with(|s| s.set(seed));
    let _ = CTR.try_with(|c| c.set(0));
}

pub fn calls_on_this_thread() -> u64 {
    CALLS.try_with(|c| c.get()).unwrap_or(0)
}

/// Fill `buf` deterministically if this thread has a seed; returns false otherwise.
pub fn fill(buf: &mut [u8]) -> bool {
    let seed = match SEED.try_with(|s| s.get()) {
        Ok(Some(s)) => s,
        _ => return false,
    };
    let _ = CALLS.try_with(|c| c.set(c.get() + 1));
    let mut ctr = CTR.try_with(|c| c.get()).unwrap_or(0);
    for chunk in buf.chunks_mut(8) {
        ctr += 1;
        let mut x = seed ^ ctr.wrapping_mul(0xA076_1D64_78BD_642F);
        let w = crate::rng::splitmix64(&mut x).to_le_bytes();
        chunk.copy_from_slice(&w[..chunk.len()]);
    }
    let _ = CTR.try_with(|c| c.set(ctr));
    true
}

/// Put this in the harness binary's `main.rs`.
#[macro_export]
macro_rules! define_getrandom {
    () => {
        /// Interposes libc's `getrandom`.  Threads without an installed seed get the real syscall.
        #[no_mangle]
        pub unsafe extern "C" fn getrandom(
            buf: *mut ::core::ffi::c_void,
            buflen: usize,
            flags: ::core::ffi::c_uint,
        ) -> isize {
            if !buf.is_null() {
                let slice = ::core::slice::from_raw_parts_mut(buf as *mut u8, buflen);
                if $crate::hashseed::fill(slice) {
                    return buflen as isize;
                }
            }
            $crate::hashseed::real_getrandom(buf, buflen, flags)
        }
    };
}

/// The real thing, by raw syscall (our symbol shadows libc's wrapper).
///
/// # Safety
/// `buf` must be valid for `buflen` bytes.
pub unsafe fn real_getrandom(buf: *mut core::ffi::c_void, buflen: usize, flags: core::ffi::c_uint) -> isize {
    libc::syscall(libc::SYS_getrandom, buf, buflen, flags) as isize
}
