//! simkit — the deterministic simulator core.
//!
//! One run = one fresh OS thread whose whole behaviour is a pure function of a
//! *choice tape*.  The run context (tape, simulated clock, event heap, trace
//! digest, counters) lives in a thread-local so that the seams (the reqwest and
//! tempfile stand-ins, readers, suppliers) can reach it without any plumbing
//! through the code under test.
//!
//! Nothing in here reads a real clock, sleeps, or uses a randomised hash map.

pub mod alloc;
pub mod ctx;
pub mod exec;
pub mod hashseed;
pub mod rng;
pub mod runner;
pub mod shrink;

pub use ctx::{
    blob, ch, chance, log_line, now, pick, probe, probe_add, range, schedule, trace, with_ctx,
};
pub use exec::{Exec, ExecConfig, Policy, StepKind, Stop};
pub use runner::{run_tape, Outcome, RunReport, Status};

/// An oracle failure: `oracle` is a stable identifier, `detail` a normalised
/// (schedule-independent where possible) description.  `oracle` + `detail` form
/// the signature that shrinking preserves and known-findings match on.
#[derive(Debug, Clone, PartialEq, Eq)]
pub struct Violation {
    pub oracle: String,
    pub detail: String,
}

impl Violation {
    pub fn new(oracle: impl Into<String>, detail: impl Into<String>) -> Self {
        Violation {
            oracle: oracle.into(),
            detail: detail.into(),
        }
    }
    pub fn signature(&self) -> String {
        format!("{}: {}", self.oracle, self.detail)
    }
}

pub type Check = Result<(), Violation>;

#[macro_export]
macro_rules! ensure {
    ($cond:expr, $oracle:expr, $($fmt:tt)+) => {
        if !($cond) {
            return Err($crate::Violation::new($oracle, format!($($fmt)+)));
        }
    };
}
