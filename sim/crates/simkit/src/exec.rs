//! Single-threaded seeded executor over a discrete-event clock.
//!
//! One *step* is either one poll of one task or the firing of one simulated event.
//! Which one, and which task, is decided by the run's tape.

use crate::ctx::{self, ch, chance, trace};
use crate::rng::hash_bytes;
use std::collections::VecDeque;
use std::future::Future;
use std::pin::Pin;
use std::sync::atomic::{AtomicBool, Ordering};
use std::sync::{Arc, Mutex};
use std::task::{Context, Poll, Wake, Waker};

#[derive(Clone, Copy, Debug, PartialEq, Eq)]
pub enum Policy {
    Fifo,
    Lifo,
    Random,
    /// Random static priorities with tape-chosen priority-change points.
    Pct,
}

impl Policy {
    pub fn from_index(i: u32) -> Policy {
        match i % 4 {
            0 => Policy::Fifo,
            1 => Policy::Random,
            2 => Policy::Lifo,
            _ => Policy::Pct,
        }
    }
    pub fn name(self) -> &'static str {
        match self {
            Policy::Fifo => "fifo",
            Policy::Lifo => "lifo",
            Policy::Random => "random",
            Policy::Pct => "pct",
        }
    }
}

#[derive(Clone, Debug)]
pub struct ExecConfig {
    pub policy: Policy,
    /// 0 = never poll a task that was not woken; otherwise a spurious poll happens
    /// with probability 1/den at each step.
    pub spurious_den: u32,
    /// With runnable tasks *and* pending events: probability 1/den of firing an event first
    /// ("let time pass").  0 = always prefer polling.
    pub time_pass_den: u32,
    pub step_budget: u64,
    /// Event kinds that "let time pass" must not fire while a task is runnable (deadlines:
    /// jumping over them would turn scheduling noise into an injected timeout).
    pub time_pass_never: &'static [&'static str],
    /// Hand every poll a fresh waker and honour only the one handed out most recently: a wake
    /// through an older waker is dropped.  The `Future` contract allows exactly that ("only the
    /// Waker from the Context passed to the most recent call to poll should be scheduled to
    /// receive a wakeup"); a future that keeps the waker of its first poll loses its wake-up.
    pub strict_wakers: bool,
    /// PCT: number of priority change points.
    pub pct_depth: u32,
    /// PCT: change points are drawn in 0..pct_horizon steps.
    pub pct_horizon: u32,
}

impl Default for ExecConfig {
    fn default() -> Self {
        ExecConfig {
            policy: Policy::Fifo,
            spurious_den: 0,
            time_pass_den: 0,
            step_budget: 1_000_000,
            time_pass_never: &[],
            strict_wakers: false,
            pct_depth: 2,
            pct_horizon: 64,
        }
    }
}

struct WakeEntry {
    id: usize,
    flag: AtomicBool,
    queue: Arc<Mutex<VecDeque<usize>>>,
}

impl Wake for WakeEntry {
    fn wake(self: Arc<Self>) {
        self.wake_by_ref()
    }
    fn wake_by_ref(self: &Arc<Self>) {
        if !self.flag.swap(true, Ordering::SeqCst) {
            self.queue.lock().unwrap().push_back(self.id);
        }
    }
}

/// A waker of one generation (strict-waker mode): live only while it is the task's latest.
struct GenWaker {
    entry: Arc<WakeEntry>,
    gen: u64,
    current: Arc<std::sync::atomic::AtomicU64>,
}

impl Wake for GenWaker {
    fn wake(self: Arc<Self>) {
        self.wake_by_ref()
    }
    fn wake_by_ref(self: &Arc<Self>) {
        if self.current.load(Ordering::SeqCst) == self.gen {
            self.entry.wake_by_ref();
        } else {
            crate::probe("exec.stale_waker_ignored");
        }
    }
}

struct Task {
    name: String,
    fut: Option<Pin<Box<dyn Future<Output = ()>>>>,
    wake: Arc<WakeEntry>,
    waker: Waker,
    gen: Arc<std::sync::atomic::AtomicU64>,
    prio: u32,
    polls: u64,
    done: bool,
    cancelled: bool,
}

#[derive(Clone, Debug, PartialEq, Eq)]
pub enum StepKind {
    Poll {
        task: usize,
        ready: bool,
        spurious: bool,
    },
    Event {
        kind: &'static str,
    },
}

#[derive(Clone, Debug, PartialEq, Eq)]
pub enum Stop {
    AllDone,
    /// Unfinished tasks, nothing woken, no pending event: a lost wake-up or a deadlock.
    Deadlock(Vec<usize>),
    Budget,
}

pub struct Exec {
    tasks: Vec<Task>,
    queue: Arc<Mutex<VecDeque<usize>>>,
    pub cfg: ExecConfig,
    pub steps: u64,
    pub polls: u64,
    pub spurious_polls: u64,
    pub events: u64,
    pub switches: u64,
    last_polled: Option<usize>,
    pct_points: Vec<u64>,
}

impl Exec {
    pub fn new(cfg: ExecConfig) -> Exec {
        let mut pct_points = Vec::new();
        if cfg.policy == Policy::Pct {
            for _ in 0..cfg.pct_depth {
                pct_points.push(ch("pct.point", cfg.pct_horizon.max(1)) as u64);
            }
        }
        Exec {
            tasks: Vec::new(),
            queue: Arc::new(Mutex::new(VecDeque::new())),
            cfg,
            steps: 0,
            polls: 0,
            spurious_polls: 0,
            events: 0,
            switches: 0,
            last_polled: None,
            pct_points,
        }
    }

    pub fn spawn(&mut self, name: impl Into<String>, fut: impl Future<Output = ()> + 'static) -> usize {
        let id = self.tasks.len();
        let wake = Arc::new(WakeEntry {
            id,
            flag: AtomicBool::new(false),
            queue: self.queue.clone(),
        });
        let waker = Waker::from(wake.clone());
        let prio = if self.cfg.policy == Policy::Pct {
            1000 + ch("pct.prio", 1000)
        } else {
            0
        };
        self.tasks.push(Task {
            name: name.into(),
            fut: Some(Box::pin(fut)),
            wake,
            waker,
            gen: Arc::new(std::sync::atomic::AtomicU64::new(0)),
            prio,
            polls: 0,
            done: false,
            cancelled: false,
        });
        // a new task is runnable
        self.tasks[id].wake.wake_by_ref();
        id
    }

    pub fn task_count(&self) -> usize {
        self.tasks.len()
    }
    pub fn is_done(&self, id: usize) -> bool {
        self.tasks[id].done
    }
    pub fn is_cancelled(&self, id: usize) -> bool {
        self.tasks[id].cancelled
    }
    pub fn task_polls(&self, id: usize) -> u64 {
        self.tasks[id].polls
    }
    pub fn task_name(&self, id: usize) -> &str {
        &self.tasks[id].name
    }
    pub fn all_done(&self) -> bool {
        self.tasks.iter().all(|t| t.done)
    }
    pub fn unfinished(&self) -> Vec<usize> {
        (0..self.tasks.len()).filter(|&i| !self.tasks[i].done).collect()
    }

    /// Drop the task's future now (cancellation at a poll boundary).
    pub fn cancel(&mut self, id: usize) {
        let t = &mut self.tasks[id];
        if !t.done {
            trace("cancel", id as u64, t.polls);
            t.cancelled = true;
            t.done = true;
            let fut = t.fut.take();
            drop(fut);
        }
    }

    fn take_runnable(&mut self) -> Vec<usize> {
        // Snapshot of woken, unfinished tasks in wake order.
        let q = self.queue.lock().unwrap();
        q.iter().copied().filter(|&i| !self.tasks[i].done).collect()
    }

    fn remove_from_queue(&mut self, id: usize) {
        let mut q = self.queue.lock().unwrap();
        if let Some(pos) = q.iter().position(|&x| x == id) {
            q.remove(pos);
        }
    }

    fn choose(&mut self, runnable: &[usize]) -> usize {
        match self.cfg.policy {
            Policy::Fifo => runnable[0],
            Policy::Lifo => *runnable.last().unwrap(),
            Policy::Random => runnable[ch("exec.pick", runnable.len() as u32) as usize],
            Policy::Pct => {
                let mut best = runnable[0];
                for &r in runnable {
                    if self.tasks[r].prio > self.tasks[best].prio {
                        best = r;
                    }
                }
                best
            }
        }
    }

    fn poll_task(&mut self, id: usize, spurious: bool) -> StepKind {
        self.remove_from_queue(id);
        let t = &mut self.tasks[id];
        t.wake.flag.store(false, Ordering::SeqCst);
        t.polls += 1;
        self.polls += 1;
        if spurious {
            self.spurious_polls += 1;
        }
        if let Some(last) = self.last_polled {
            if last != id {
                self.switches += 1;
            }
        }
        self.last_polled = Some(id);
        let waker = if self.cfg.strict_wakers {
            let g = t.gen.fetch_add(1, Ordering::SeqCst) + 1;
            Waker::from(Arc::new(GenWaker { entry: t.wake.clone(), gen: g, current: t.gen.clone() }))
        } else {
            t.waker.clone()
        };
        let mut cx = Context::from_waker(&waker);
        let mut fut = t.fut.take().expect("polling a finished task");
        let res = fut.as_mut().poll(&mut cx);
        let t = &mut self.tasks[id];
        let ready = match res {
            Poll::Ready(()) => {
                t.done = true;
                drop(fut);
                true
            }
            Poll::Pending => {
                t.fut = Some(fut);
                false
            }
        };
        trace("poll", id as u64, (ready as u64) | ((spurious as u64) << 1));
        if self.cfg.policy == Policy::Pct && self.pct_points.contains(&self.steps) {
            // demote the task that just ran
            let min = self.tasks.iter().map(|t| t.prio).min().unwrap_or(1);
            self.tasks[id].prio = min.saturating_sub(1);
        }
        StepKind::Poll {
            task: id,
            ready,
            spurious,
        }
    }

    fn fire_event(&mut self) -> Option<StepKind> {
        let (kind, f) = ctx::pop_event()?;
        self.events += 1;
        trace("event", hash_bytes(kind.as_bytes()), 0);
        f();
        Some(StepKind::Event { kind })
    }

    /// Perform one step.
    pub fn step(&mut self) -> Result<StepKind, Stop> {
        if self.all_done() {
            return Err(Stop::AllDone);
        }
        if self.steps >= self.cfg.step_budget {
            return Err(Stop::Budget);
        }
        self.steps += 1;
        let runnable = self.take_runnable();
        let have_events = ctx::pending_events() > 0;

        // spurious poll of an un-woken unfinished task
        if self.cfg.spurious_den > 0 && chance("exec.spurious", 1, self.cfg.spurious_den) {
            let idle: Vec<usize> = (0..self.tasks.len())
                .filter(|&i| !self.tasks[i].done && !runnable.contains(&i))
                .collect();
            if !idle.is_empty() {
                let id = idle[ch("exec.spurious.pick", idle.len() as u32) as usize];
                return Ok(self.poll_task(id, true));
            }
        }

        if !runnable.is_empty() {
            if have_events
                && self.cfg.time_pass_den > 0
                && chance("exec.timepass", 1, self.cfg.time_pass_den)
                && !ctx::peek_event_kind().map(|k| self.cfg.time_pass_never.contains(&k)).unwrap_or(true)
            {
                if let Some(k) = self.fire_event() {
                    return Ok(k);
                }
            }
            let id = self.choose(&runnable);
            return Ok(self.poll_task(id, false));
        }
        if let Some(k) = self.fire_event() {
            return Ok(k);
        }
        Err(Stop::Deadlock(self.unfinished()))
    }

    /// Run to completion, calling `after` after every step.
    pub fn run(
        &mut self,
        mut after: impl FnMut(&mut Exec, &StepKind) -> crate::Check,
    ) -> Result<Stop, crate::Violation> {
        loop {
            match self.step() {
                Ok(kind) => after(self, &kind)?,
                Err(stop) => return Ok(stop),
            }
        }
    }
}

/// A future that returns `Pending` `n` times (waking itself each time): a pure yield point.
pub struct YieldN(pub u32);
impl Future for YieldN {
    type Output = ();
    fn poll(mut self: Pin<&mut Self>, cx: &mut Context<'_>) -> Poll<()> {
        if self.0 == 0 {
            Poll::Ready(())
        } else {
            self.0 -= 1;
            cx.waker().wake_by_ref();
            Poll::Pending
        }
    }
}

/// A gate: `Pending` until the simulator opens it (by an event).  Cloneable handle.
#[derive(Clone, Default)]
pub struct Gate {
    inner: Arc<Mutex<GateInner>>,
}
#[derive(Default)]
struct GateInner {
    open: bool,
    wakers: Vec<Waker>,
}
impl Gate {
    pub fn new() -> Gate {
        Gate::default()
    }
    pub fn open(&self) {
        let wakers = {
            let mut g = self.inner.lock().unwrap();
            g.open = true;
            std::mem::take(&mut g.wakers)
        };
        for w in wakers {
            w.wake();
        }
    }
    pub fn is_open(&self) -> bool {
        self.inner.lock().unwrap().open
    }
    pub fn wait(&self) -> GateWait {
        GateWait { gate: self.clone() }
    }
    /// Open after `delay` simulated ns.
    pub fn open_after(&self, kind: &'static str, delay: u64) {
        let g = self.clone();
        ctx::schedule(kind, delay, move || g.open());
    }
}
pub struct GateWait {
    gate: Gate,
}
impl Future for GateWait {
    type Output = ();
    fn poll(self: Pin<&mut Self>, cx: &mut Context<'_>) -> Poll<()> {
        let mut g = self.gate.inner.lock().unwrap();
        if g.open {
            Poll::Ready(())
        } else {
            g.wakers.push(cx.waker().clone());
            Poll::Pending
        }
    }
}
