//! Running one tape on a fresh thread, with panic capture.

use crate::ctx::{self, RunCtx, Tape};
use crate::Violation;
use serde_json::Value;
use std::cell::RefCell;
use std::collections::BTreeMap;
use std::panic::{catch_unwind, AssertUnwindSafe};
use std::sync::Once;

/// What an engine returns for one run.
pub struct Outcome {
    pub result: crate::Check,
    /// Non-trivial by the engine's stated rule.
    pub nontrivial: bool,
    /// Key under which this run counts as *distinct* (world digest + decision trace, or a
    /// coarser engine-defined key).
    pub key: u64,
    /// A JSON description of the case (knobs, world summary, outcome) — used for samples.
    pub info: Value,
}

#[derive(Debug, Clone, PartialEq, Eq)]
pub enum Status {
    Ok,
    Violation(Violation),
}

pub struct RunReport {
    pub status: Status,
    pub digest: u64,
    pub tape: Vec<u32>,
    pub probes: BTreeMap<&'static str, u64>,
    pub log: Vec<String>,
    pub sim_ns: u64,
    pub events: u64,
    pub nontrivial: bool,
    pub key: u64,
    pub info: Value,
}

#[derive(Debug, Clone)]
pub struct PanicInfo {
    pub location: String,
    pub message: String,
}

thread_local! {
    static LAST_PANIC: RefCell<Option<PanicInfo>> = const { RefCell::new(None) };
}

static HOOK: Once = Once::new();

pub fn install_panic_hook() {
    HOOK.call_once(|| {
        std::panic::set_hook(Box::new(|info| {
            let location = info
                .location()
                .map(|l| format!("{}:{}", l.file(), l.line()))
                .unwrap_or_else(|| "?".into());
            let message = if let Some(s) = info.payload().downcast_ref::<&str>() {
                s.to_string()
            } else if let Some(s) = info.payload().downcast_ref::<String>() {
                s.clone()
            } else {
                "<non-string panic payload>".to_string()
            };
            let _ = LAST_PANIC.try_with(|p| {
                if let Ok(mut p) = p.try_borrow_mut() {
                    // keep the first panic of the run (later ones are usually consequences)
                    if p.is_none() {
                        *p = Some(PanicInfo { location, message });
                    }
                }
            });
        }));
    });
}

pub fn take_panic() -> Option<PanicInfo> {
    LAST_PANIC.with(|p| p.borrow_mut().take())
}

/// Strip machine-specific prefixes so signatures are stable: keep the path from the crate dir on.
pub fn normalise_location(loc: &str) -> String {
    let mut s = loc.to_string();
    for marker in ["/repo/", "/registry/src/", "/rustc/"] {
        if let Some(i) = s.find(marker) {
            s = s[i + marker.len()..].to_string();
            if marker == "/registry/src/" {
                if let Some(j) = s.find('/') {
                    s = s[j + 1..].to_string();
                }
            }
            break;
        }
    }
    s
}

/// Run `f` under `catch_unwind` on the current thread; map a panic to a Violation
/// with oracle `panic`.
pub fn catch<T>(f: impl FnOnce() -> T) -> Result<T, Violation> {
    install_panic_hook();
    let _ = take_panic();
    match catch_unwind(AssertUnwindSafe(f)) {
        Ok(v) => Ok(v),
        Err(_) => {
            let p = take_panic().unwrap_or(PanicInfo {
                location: "?".into(),
                message: "?".into(),
            });
            // harness-originated budget trips carry a marker and are the oracle they implement
            if let Some(rest) = p.message.strip_prefix(BUDGET_MARKER) {
                let mut it = rest.splitn(2, "|");
                let oracle = it.next().unwrap_or("budget").to_string();
                let detail = it.next().unwrap_or("").to_string();
                return Err(Violation::new(oracle, detail));
            }
            let msg: String = p.message.chars().take(160).collect();
            // digits in messages are input-dependent: normalise them away for the signature
            let norm: String = msg
                .chars()
                .map(|c| if c.is_ascii_digit() { '#' } else { c })
                .collect();
            Err(Violation::new(
                "panic",
                format!("{} [{}]", normalise_location(&p.location), norm),
            ))
        }
    }
}

struct CtxSummary {
    digest: u64,
    tape: Vec<u32>,
    probes: BTreeMap<&'static str, u64>,
    log: Vec<String>,
    now: u64,
    events_fired: u64,
}

pub const BUDGET_MARKER: &str = "SIMKIT-BUDGET|";

/// Abort the current run with an oracle failure from inside code that cannot return one
/// (a seam implementation deep inside the code under test).
pub fn trip(oracle: &str, detail: &str) -> ! {
    panic!("{}{}|{}", BUDGET_MARKER, oracle, detail)
}

pub const STACK_BYTES: usize = 64 << 20;

/// Run `f` on a fresh thread whose hash keys derive from `hash_seed`.
pub fn on_fresh_thread<T: Send + 'static>(
    hash_seed: u64,
    f: impl FnOnce() -> T + Send + 'static,
) -> std::thread::Result<T> {
    std::thread::Builder::new()
        .stack_size(STACK_BYTES)
        .spawn(move || {
            crate::hashseed::set_thread_seed(Some(hash_seed));
            crate::alloc::reset();
            f()
        })
        .expect("spawn")
        .join()
}

/// Execute one tape with `engine` on a fresh thread.  The first tape cell is the hash seed.
pub fn run_tape(tape: Tape, verbose: bool, engine: fn() -> Outcome) -> RunReport {
    install_panic_hook();
    // The hash seed must be known before the thread starts: peel it off the tape here.
    let mut tape = tape;
    let hash_seed = tape.draw(u32::MAX) as u64;
    let joined = on_fresh_thread(hash_seed, move || {
        ctx::install(RunCtx::new(tape, verbose));
        let res = catch(engine);
        let c = ctx::uninstall().expect("ctx vanished");
        // pending event closures are not Send: reduce the context to plain data here
        let summary = CtxSummary {
            digest: c.digest,
            tape: c.tape.rec.clone(),
            probes: c.probes.clone(),
            log: c.log.clone(),
            now: c.now.saturating_add(c.sub_ns),
            events_fired: c.events_fired,
        };
        drop(c);
        (res, summary)
    });
    let (res, c) = match joined {
        Ok(x) => x,
        Err(_) => panic!("simkit: run thread died outside catch_unwind"),
    };
    let (status, nontrivial, key, info) = match res {
        Ok(o) => (
            match o.result {
                Ok(()) => Status::Ok,
                Err(v) => Status::Violation(v),
            },
            o.nontrivial,
            o.key,
            o.info,
        ),
        Err(v) => (Status::Violation(v), false, 0, Value::Null),
    };
    RunReport {
        status,
        digest: c.digest,
        tape: c.tape,
        probes: c.probes,
        log: c.log,
        sim_ns: c.now,
        events: c.events_fired,
        nontrivial,
        key,
        info,
    }
}

/// Result of a sub-execution (one of several executions inside one run, each on its own fresh
/// thread with its own context and hash seed).
pub struct SubReport<T> {
    pub value: Result<T, Violation>,
    pub digest: u64,
    pub probes: BTreeMap<&'static str, u64>,
    pub log: Vec<String>,
    pub sim_ns: u64,
    pub events: u64,
    pub tape: Vec<u32>,
}

/// Execute `f` on a fresh thread under its own tape.  The first tape cell is the hash seed.
pub fn run_sub<T: Send + 'static>(
    tape: Tape,
    verbose: bool,
    f: impl FnOnce() -> T + Send + 'static,
) -> SubReport<T> {
    install_panic_hook();
    let mut tape = tape;
    let hash_seed = tape.draw(u32::MAX) as u64;
    let joined = on_fresh_thread(hash_seed, move || {
        ctx::install(RunCtx::new(tape, verbose));
        let res = catch(f);
        let c = ctx::uninstall().expect("ctx vanished");
        let summary = CtxSummary {
            digest: c.digest,
            tape: c.tape.rec.clone(),
            probes: c.probes.clone(),
            log: c.log.clone(),
            now: c.now,
            events_fired: c.events_fired,
        };
        drop(c);
        (res, summary)
    });
    let (res, c) = match joined {
        Ok(x) => x,
        Err(_) => panic!("simkit: sub-execution thread died outside catch_unwind"),
    };
    SubReport {
        value: res,
        digest: c.digest,
        probes: c.probes,
        log: c.log,
        sim_ns: c.now,
        events: c.events_fired,
        tape: c.tape,
    }
}

/// A sub-execution whose tape is *nested* in the current run's tape: `[seed, len, cells…]`.
/// Generating: the sub-run draws from a PRNG seeded by `seed` (mixed with `salt`), and the cells
/// it consumed are appended to the run's record.  Replaying: the recorded cells are used.  So a
/// replay file carries the schedule of every sub-execution explicitly, and the shrinker can
/// simplify it.  `plain = true` runs the sub-execution on the all-zero tape (nothing recorded).
pub fn run_sub_nested<T: Send + 'static>(
    site: &'static str,
    salt: u64,
    plain: bool,
    verbose: bool,
    f: impl FnOnce() -> T + Send + 'static,
) -> SubReport<T> {
    if plain {
        return run_sub(Tape::replay(vec![]), verbose, f);
    }
    let seed = ctx::ch(site, u32::MAX) as u64;
    let replaying = ctx::with_ctx(|c| c.tape.is_replay());
    if replaying {
        let len = ctx::ch(site, 1 << 24) as usize;
        let cells = ctx::with_ctx(|c| c.tape.take_raw(len));
        run_sub(Tape::replay(cells), verbose, f)
    } else {
        let rep = run_sub(Tape::generate(seed | (salt << 32)), verbose, f);
        let cells = rep.tape.clone();
        ctx::with_ctx(|c| {
            // the length cell, then the cells themselves
            c.tape.append_raw(&[cells.len().min((1 << 24) - 1) as u32]);
            c.tape.append_raw(&cells[..cells.len().min((1 << 24) - 1)]);
        });
        rep
    }
}
