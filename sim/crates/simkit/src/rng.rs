//! xoshiro256** and splitmix64 — the only PRNG of the simulator.

#[derive(Clone, Debug)]
pub struct Xoshiro {
    s: [u64; 4],
}

pub fn splitmix64(x: &mut u64) -> u64 {
    *x = x.wrapping_add(0x9E37_79B9_7F4A_7C15);
    let mut z = *x;
    z = (z ^ (z >> 30)).wrapping_mul(0xBF58_476D_1CE4_E5B9);
    z = (z ^ (z >> 27)).wrapping_mul(0x94D0_49BB_1331_11EB);
    z ^ (z >> 31)
}

/// Mix several integers into one seed (order-sensitive).
pub fn mix(parts: &[u64]) -> u64 {
    let mut acc = 0x243F_6A88_85A3_08D3u64;
    for &p in parts {
        let mut x = acc ^ p;
        acc = splitmix64(&mut x).rotate_left(17) ^ p.wrapping_mul(0x9E37_79B9_7F4A_7C15);
    }
    let mut x = acc;
    splitmix64(&mut x)
}

pub fn hash_bytes(bytes: &[u8]) -> u64 {
    // FNV-1a 64 followed by a finaliser: stable across processes by construction.
    let mut h = 0xcbf2_9ce4_8422_2325u64;
    for &b in bytes {
        h ^= b as u64;
        h = h.wrapping_mul(0x0000_0100_0000_01B3);
    }
    let mut x = h;
    splitmix64(&mut x)
}

impl Xoshiro {
    pub fn new(seed: u64) -> Self {
        let mut x = seed;
        let s = [
            splitmix64(&mut x),
            splitmix64(&mut x),
            splitmix64(&mut x),
            splitmix64(&mut x),
        ];
        Xoshiro { s }
    }
    pub fn next_u64(&mut self) -> u64 {
        let result = self.s[1].wrapping_mul(5).rotate_left(7).wrapping_mul(9);
        let t = self.s[1] << 17;
        self.s[2] ^= self.s[0];
        self.s[3] ^= self.s[1];
        self.s[1] ^= self.s[2];
        self.s[0] ^= self.s[3];
        self.s[2] ^= t;
        self.s[3] = self.s[3].rotate_left(45);
        result
    }
    pub fn next_u32(&mut self) -> u32 {
        (self.next_u64() >> 32) as u32
    }
    pub fn below(&mut self, n: u32) -> u32 {
        if n <= 1 {
            return 0;
        }
        ((self.next_u32() as u64 * n as u64) >> 32) as u32
    }
}
