//! Allocation meter: per-thread live/peak byte counters and a hard per-thread cap.
//!
//! The harness binary installs `Meter` as its `#[global_allocator]`.

use std::alloc::{GlobalAlloc, Layout, System};
use std::cell::Cell;

pub struct Meter;

thread_local! {
    static CUR: Cell<isize> = const { Cell::new(0) };
    static PEAK: Cell<isize> = const { Cell::new(0) };
    static CAP: Cell<isize> = const { Cell::new(isize::MAX) };
    static BIGGEST: Cell<usize> = const { Cell::new(0) };
}

#[inline]
fn add(n: usize) -> bool {
    CUR.try_with(|c| {
        let v = c.get() + n as isize;
        let cap = CAP.try_with(|c| c.get()).unwrap_or(isize::MAX);
        if v > cap {
            return false;
        }
        c.set(v);
        let _ = PEAK.try_with(|p| {
            if v > p.get() {
                p.set(v)
            }
        });
        let _ = BIGGEST.try_with(|b| {
            if n > b.get() {
                b.set(n)
            }
        });
        true
    })
    .unwrap_or(true)
}

#[inline]
fn sub(n: usize) {
    let _ = CUR.try_with(|c| c.set(c.get() - n as isize));
}

unsafe impl GlobalAlloc for Meter {
    unsafe fn alloc(&self, layout: Layout) -> *mut u8 {
        if !add(layout.size()) {
            return std::ptr::null_mut();
        }
        let p = System.alloc(layout);
        if p.is_null() {
            sub(layout.size());
        }
        p
    }
    unsafe fn dealloc(&self, ptr: *mut u8, layout: Layout) {
        sub(layout.size());
        System.dealloc(ptr, layout)
    }
    unsafe fn alloc_zeroed(&self, layout: Layout) -> *mut u8 {
        if !add(layout.size()) {
            return std::ptr::null_mut();
        }
        let p = System.alloc_zeroed(layout);
        if p.is_null() {
            sub(layout.size());
        }
        p
    }
    unsafe fn realloc(&self, ptr: *mut u8, layout: Layout, new_size: usize) -> *mut u8 {
        if new_size > layout.size() {
            if !add(new_size - layout.size()) {
                return std::ptr::null_mut();
            }
        } else {
            sub(layout.size() - new_size);
        }
        let p = System.realloc(ptr, layout, new_size);
        if p.is_null() {
            if new_size > layout.size() {
                sub(new_size - layout.size());
            } else {
                // shrink failed: undo
                let _ = add(layout.size() - new_size);
            }
        }
        p
    }
}

/// Reset this thread's counters: live = 0 from here on (relative metering).
pub fn reset() {
    let _ = CUR.try_with(|c| c.set(0));
    let _ = PEAK.try_with(|c| c.set(0));
    let _ = BIGGEST.try_with(|c| c.set(0));
}
/// Mark: peak := current.
pub fn reset_peak() {
    let cur = live();
    let _ = PEAK.try_with(|c| c.set(cur));
    let _ = BIGGEST.try_with(|c| c.set(0));
}
pub fn live() -> isize {
    CUR.try_with(|c| c.get()).unwrap_or(0)
}
pub fn peak() -> isize {
    PEAK.try_with(|c| c.get()).unwrap_or(0)
}
pub fn biggest() -> usize {
    BIGGEST.try_with(|c| c.get()).unwrap_or(0)
}
/// Hard cap on this thread's live bytes (relative to the last `reset`); an allocation above
/// it returns null, which aborts the process — the supervisor attributes the abort to the
/// journalled run.
pub fn set_cap(bytes: usize) {
    let _ = CAP.try_with(|c| c.set(bytes.min(isize::MAX as usize) as isize));
}
