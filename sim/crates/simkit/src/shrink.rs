//! Tape minimisation: delete blocks, zero cells, halve / decrement cells, while the same
//! violation signature persists.  World, schedule and fault sequence all live on the tape,
//! so they shrink together.

use std::time::{Duration, Instant};

pub struct ShrinkStats {
    pub executions: u32,
    pub accepted: u32,
    pub from_len: usize,
    pub to_len: usize,
}

/// `test(candidate)` returns `Some(recorded_tape)` iff the candidate still fails with the
/// *same signature*.  `recorded_tape` is what the run actually consumed (normalised).
pub fn minimise(
    start: Vec<u32>,
    max_execs: u32,
    max_wall: Duration,
    mut test: impl FnMut(&[u32]) -> Option<Vec<u32>>,
) -> (Vec<u32>, ShrinkStats) {
    let t0 = Instant::now();
    let mut best = start.clone();
    let mut stats = ShrinkStats {
        executions: 0,
        accepted: 0,
        from_len: start.len(),
        to_len: start.len(),
    };
    let mut try_cand = |cand: &[u32], best: &mut Vec<u32>, stats: &mut ShrinkStats| -> bool {
        if stats.executions >= max_execs || t0.elapsed() > max_wall {
            return false;
        }
        stats.executions += 1;
        if let Some(rec) = test(cand) {
            // accept only if not larger (lexicographic on (len, sum))
            let better = rec.len() < best.len()
                || (rec.len() == best.len()
                    && rec.iter().map(|&x| x as u64).sum::<u64>()
                        < best.iter().map(|&x| x as u64).sum::<u64>());
            if better {
                *best = rec;
                stats.accepted += 1;
                return true;
            }
        }
        false
    };

    // trailing zeros carry no information (an exhausted tape reads 0)
    let strip = |v: &mut Vec<u32>| {
        while v.last() == Some(&0) {
            v.pop();
        }
    };
    strip(&mut best);

    let mut progress = true;
    let mut rounds = 0;
    while progress && rounds < 8 {
        progress = false;
        rounds += 1;
        // 1. truncate (tail reads as zeros)
        let mut cut = best.len() / 2;
        while cut >= 1 {
            if best.len() > cut {
                let cand = best[..best.len() - cut].to_vec();
                if try_cand(&cand, &mut best, &mut stats) {
                    strip(&mut best);
                    progress = true;
                    continue;
                }
            }
            cut /= 2;
        }
        // 2. delete blocks
        let mut size = (best.len() / 2).max(1);
        loop {
            let mut i = best.len().saturating_sub(size);
            loop {
                if i + size <= best.len() {
                    let mut cand = best.clone();
                    cand.drain(i..i + size);
                    if try_cand(&cand, &mut best, &mut stats) {
                        strip(&mut best);
                        progress = true;
                    }
                }
                if i == 0 {
                    break;
                }
                i = i.saturating_sub(size.max(1));
            }
            if size == 1 {
                break;
            }
            size /= 2;
        }
        // 3. zero blocks, then single cells
        let mut size = (best.len() / 4).max(1);
        loop {
            let mut i = 0;
            while i < best.len() {
                let end = (i + size).min(best.len());
                if best[i..end].iter().any(|&x| x != 0) {
                    let mut cand = best.clone();
                    for c in &mut cand[i..end] {
                        *c = 0;
                    }
                    if try_cand(&cand, &mut best, &mut stats) {
                        strip(&mut best);
                        progress = true;
                    }
                }
                i += size;
            }
            if size == 1 {
                break;
            }
            size /= 2;
        }
        // 4. reduce cells
        let mut i = 0;
        while i < best.len() {
            let mut v = best[i];
            while v > 0 {
                let mut improved = false;
                for nv in [v / 2, v - 1] {
                    if nv == v {
                        continue;
                    }
                    let mut cand = best.clone();
                    cand[i] = nv;
                    if try_cand(&cand, &mut best, &mut stats) {
                        strip(&mut best);
                        progress = true;
                        improved = true;
                        break;
                    }
                }
                if !improved || i >= best.len() {
                    break;
                }
                v = best[i];
            }
            i += 1;
        }
        if stats.executions >= max_execs || t0.elapsed() > max_wall {
            break;
        }
    }
    stats.to_len = best.len();
    (best, stats)
}
