//! The per-run context: choice tape, simulated clock, event heap, trace digest, probes.
//!
//! Lives in a thread-local; a run owns its thread (see `runner`).

use crate::rng::Xoshiro;
use std::cell::RefCell;
use std::collections::{BTreeMap, BinaryHeap};
use std::cmp::Reverse;

pub enum Source {
    Gen(Xoshiro),
    Replay(Vec<u32>),
}

pub struct Tape {
    src: Source,
    pos: usize,
    /// Every value handed out, already reduced to its range.  This is the replay payload.
    pub rec: Vec<u32>,
    /// Upper bounds the values were drawn under (for the shrinker / debugging).
    pub bounds: Vec<u32>,
}

impl Tape {
    pub fn generate(seed: u64) -> Tape {
        Tape {
            src: Source::Gen(Xoshiro::new(seed)),
            pos: 0,
            rec: Vec::new(),
            bounds: Vec::new(),
        }
    }
    pub fn replay(values: Vec<u32>) -> Tape {
        Tape {
            src: Source::Replay(values),
            pos: 0,
            rec: Vec::new(),
            bounds: Vec::new(),
        }
    }
    pub fn is_replay(&self) -> bool {
        matches!(self.src, Source::Replay(_))
    }

    /// Replay mode: take the next `len` raw cells (fewer if the tape is exhausted), recording
    /// them verbatim.  Generate mode: not used.
    pub fn take_raw(&mut self, len: usize) -> Vec<u32> {
        let out: Vec<u32> = match &self.src {
            Source::Replay(v) => v.iter().skip(self.pos).take(len).copied().collect(),
            Source::Gen(_) => Vec::new(),
        };
        self.pos += out.len();
        for &c in &out {
            self.rec.push(c);
            self.bounds.push(u32::MAX);
        }
        out
    }

    /// Generate mode: append cells that were consumed elsewhere (a nested tape) to the record.
    pub fn append_raw(&mut self, cells: &[u32]) {
        for &c in cells {
            self.rec.push(c);
            self.bounds.push(u32::MAX);
        }
        self.pos += cells.len();
    }

    #[inline]
    pub fn draw(&mut self, n: u32) -> u32 {
        if n <= 1 {
            return 0;
        }
        let v = match &mut self.src {
            Source::Gen(r) => r.below(n),
            Source::Replay(v) => v.get(self.pos).map(|x| x % n).unwrap_or(0),
        };
        self.pos += 1;
        self.rec.push(v);
        self.bounds.push(n);
        v
    }
}

type EventFn = Box<dyn FnOnce()>;

pub struct RunCtx {
    pub tape: Tape,
    pub now: u64,
    seq: u64,
    heap: BinaryHeap<Reverse<(u64, u64)>>,
    events: BTreeMap<u64, (&'static str, EventFn)>,
    pub digest: u64,
    pub verbose: bool,
    pub log: Vec<String>,
    pub probes: BTreeMap<&'static str, u64>,
    pub events_fired: u64,
    /// Simulated time covered by sub-executions (each has its own clock).
    pub sub_ns: u64,
}

pub const LOG_CAP: usize = 600;

impl RunCtx {
    pub fn new(tape: Tape, verbose: bool) -> RunCtx {
        RunCtx {
            tape,
            now: 0,
            seq: 0,
            heap: BinaryHeap::new(),
            events: BTreeMap::new(),
            digest: 0x6a09_e667_f3bc_c908,
            verbose,
            log: Vec::new(),
            probes: BTreeMap::new(),
            events_fired: 0,
            sub_ns: 0,
        }
    }
}

thread_local! {
    static CTX: RefCell<Option<RunCtx>> = const { RefCell::new(None) };
}

pub fn install(ctx: RunCtx) {
    CTX.with(|c| *c.borrow_mut() = Some(ctx));
}

pub fn uninstall() -> Option<RunCtx> {
    CTX.with(|c| c.borrow_mut().take())
}

pub fn with_ctx<R>(f: impl FnOnce(&mut RunCtx) -> R) -> R {
    CTX.with(|c| {
        let mut b = c.borrow_mut();
        let ctx = b.as_mut().expect("simkit: no run context on this thread");
        f(ctx)
    })
}

pub fn has_ctx() -> bool {
    CTX.with(|c| c.try_borrow().map(|b| b.is_some()).unwrap_or(true))
}

/// A choice in `0..n`.  0 is by convention the plain choice (no fault, first runnable, smallest).
#[inline]
pub fn ch(_site: &'static str, n: u32) -> u32 {
    with_ctx(|c| c.tape.draw(n))
}

/// True with probability num/den; `false` is tape value 0.
#[inline]
pub fn chance(site: &'static str, num: u32, den: u32) -> bool {
    debug_assert!(num <= den && den > 0);
    if num == 0 {
        return false;
    }
    // value 0 .. den-num-1 => false ; shrinks towards false
    ch(site, den) >= den - num
}

/// Inclusive range; shrinks towards `lo`.
#[inline]
pub fn range(site: &'static str, lo: u64, hi: u64) -> u64 {
    debug_assert!(lo <= hi);
    let span = hi - lo;
    if span == 0 {
        return lo;
    }
    if span < u32::MAX as u64 {
        lo + ch(site, span as u32 + 1) as u64
    } else {
        let hi32 = ch(site, u32::MAX) as u64;
        let lo32 = ch(site, u32::MAX) as u64;
        lo + ((hi32 << 32) | lo32) % (span + 1)
    }
}

pub fn pick<'a, T>(site: &'static str, items: &'a [T]) -> &'a T {
    &items[ch(site, items.len() as u32) as usize]
}

/// `len` pseudo-random bytes for the price of one tape cell.
pub fn blob(site: &'static str, len: usize) -> Vec<u8> {
    let seed = ch(site, u32::MAX) as u64;
    let mut r = Xoshiro::new(seed ^ 0xB10B);
    let mut out = Vec::with_capacity(len);
    while out.len() < len {
        let w = r.next_u64().to_le_bytes();
        let take = (len - out.len()).min(8);
        out.extend_from_slice(&w[..take]);
    }
    out
}

/// Simulated time in nanoseconds.
pub fn now() -> u64 {
    with_ctx(|c| c.now)
}

/// Schedule `f` to fire `delay` simulated nanoseconds from now.  Returns the event id.
pub fn schedule(kind: &'static str, delay: u64, f: impl FnOnce() + 'static) -> u64 {
    with_ctx(|c| {
        c.seq += 1;
        let id = c.seq;
        let at = c.now.saturating_add(delay);
        c.heap.push(Reverse((at, id)));
        c.events.insert(id, (kind, Box::new(f)));
        id
    })
}

/// Cancel a scheduled event (no-op if it already fired).
pub fn cancel_event(id: u64) {
    with_ctx(|c| {
        c.events.remove(&id);
    })
}

pub fn pending_events() -> usize {
    with_ctx(|c| c.events.len())
}

/// Kind of the earliest pending event, if any (drops cancelled heap entries on the way).
pub fn peek_event_kind() -> Option<&'static str> {
    with_ctx(|c| {
        while let Some(Reverse((_, id))) = c.heap.peek().copied() {
            if let Some((kind, _)) = c.events.get(&id) {
                return Some(*kind);
            }
            c.heap.pop();
        }
        None
    })
}

/// Pop the earliest event, advance the clock, and hand the closure back to be fired
/// *outside* the context borrow.
pub fn pop_event() -> Option<(&'static str, EventFn)> {
    with_ctx(|c| {
        while let Some(Reverse((at, id))) = c.heap.pop() {
            if let Some((kind, f)) = c.events.remove(&id) {
                if at > c.now {
                    c.now = at;
                }
                c.events_fired += 1;
                return Some((kind, f));
            }
        }
        None
    })
}

/// Account simulated time / events of a sub-execution to this run (evidence only).
pub fn add_sub_time(ns: u64, events: u64) {
    with_ctx(|c| {
        c.sub_ns = c.sub_ns.saturating_add(ns);
        c.events_fired += events;
    })
}

/// Fold a numeric trace record into the run's digest (always) — cheap, no allocation.
#[inline]
pub fn trace(tag: &'static str, a: u64, b: u64) {
    with_ctx(|c| {
        let mut h = c.digest; // tag contributes by content, never by address
        for &byte in tag.as_bytes() {
            h = (h ^ byte as u64).wrapping_mul(0x0000_0100_0000_01B3);
        }
        h = (h ^ a).wrapping_mul(0x9E37_79B9_7F4A_7C15).rotate_left(23);
        h = (h ^ b).wrapping_mul(0xC2B2_AE3D_27D4_EB4F).rotate_left(29);
        c.digest = h;
        if c.verbose && c.log.len() < LOG_CAP {
            c.log.push(format!("t={} {} {} {}", c.now, tag, a, b));
        }
    })
}

/// Human-readable line, only materialised in verbose (replay / sample) runs.  Never draws.
pub fn log_line(f: impl FnOnce() -> String) {
    with_ctx(|c| {
        if c.verbose && c.log.len() < LOG_CAP {
            let s = f();
            c.log.push(format!("t={} {}", c.now, s));
        }
    })
}

/// "This happened" counter: fault fired, rare branch reached, …
#[inline]
pub fn probe(name: &'static str) {
    probe_add(name, 1)
}

#[inline]
pub fn probe_add(name: &'static str, n: u64) {
    with_ctx(|c| *c.probes.entry(name).or_insert(0) += n)
}
