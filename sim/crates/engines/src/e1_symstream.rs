use simkit::Outcome;
pub const RULE_C10: &str = "todo";
pub const RULE_C09: &str = "todo";
pub fn run_c10() -> Outcome { todo!() }
pub fn run_c09() -> Outcome { todo!() }
