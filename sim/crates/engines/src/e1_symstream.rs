//! E1 `symstream` — C09 and C10: the streaming symbol-file parser under every read schedule
//! and under reader faults.
//!
//! Real `SymbolFile::parse` over `ChunkReader` (every read size a tape decision) and real
//! `SymbolFile::parse_async` over a simulated HTTP body polled by the seeded executor.

use crate::common::draw_delay;
use crate::symgen::{self, Eol, SymOpts};
use breakpad_symbols::{SymbolError, SymbolFile};
use serde_json::json;
use simkit::{ch, chance, probe, range, Exec, ExecConfig, Outcome, Policy, Stop, Violation};
use std::cell::RefCell;
use std::io::{self, Read};
use std::rc::Rc;

pub const RULE_C10: &str = "Each run draws from one tape: a symbol file from the record grammar (every record kind, LF/CRLF/CRCRLF/mixed endings, numeric extremes, long names up to 79 000 B (one file in twelve: up to 400 000 B, for which only the callback clauses are judged), bulk filler to cross the 10/20/40/80/160 KiB buffer thresholds, optional byte-level corruption, last line terminated or not), and a chunk plan made of segments (full reads | 1-byte trickle | uniform 1-64 | geometric | threshold T+-3 for T in {5,10,20,40,80,160} KiB | structural cuts inside CRLF, right after/before a newline, inside a FUNC's sublines | one split at a uniformly drawn offset); one run in eight instead takes a file of at most 1500 bytes and parses it once per single split point, k = 0..=len, exhaustively (sync; every eighth k also async). The same bytes go through SymbolFile::parse over a ChunkReader and/or SymbolFile::parse_async over a simulated HTTP body (chunk sizes from the plan, 0-k Pending polls per chunk) and are compared with SymbolFile::from_bytes of the whole buffer. NON-TRIVIAL iff the streamed parse saw at least two reads/chunks that ended strictly inside the input and the input has at least two lines. DISTINCT = distinct (content digest, sequence of delivered chunk sizes) among non-trivial runs.";

pub const RULE_C09: &str = "As C10's generator plus: lines of 1 B .. 2 MiB (thresholds 5K/10K/20K/40K/79K/80K/160K/320K/1M/2M +- delta), giant single lines of 2-8 MiB, files ending inside a long line, and reader faults (EINTR, EIO at a tape-chosen read, early clean EOF, one bit flipped / one chunk delivered twice / one chunk dropped; HTTP body reset or clean cut). Oracles per run: no panic; read calls <= 2*len+64; every buffer offered to the reader <= 160 KiB; peak live heap during the parse within a fixed window bound when the retained result is tiny; LoadError only if a reader error was injected and then always; the callback's bytes are a prefix of the delivered stream; with all delivered lines < 79 000 B the outcome equals from_bytes(delivered); an inserted line >= 400 KiB is dropped and the result equals the parse of the file without it. NON-TRIVIAL iff the run exercised buffer growth, recovery, or a fired reader fault. DISTINCT = distinct (content digest, delivered chunk sizes, fault) among non-trivial runs.";

pub const LINE_LIMIT: usize = 79_000;
const MAX_BUFFER: usize = 160 * 1024;

// ---------------------------------------------------------------------------------------------
// chunk plans

#[derive(Clone, Debug, PartialEq)]
pub enum PlanKind {
    Full,
    Trickle1,
    Uniform64,
    Geometric,
    Threshold(usize),
    /// End reads exactly at these stream offsets (sorted).
    Cuts(Vec<usize>),
}

#[derive(Clone, Debug)]
pub struct ChunkPlan {
    /// (segment end offset, kind); the last segment extends to the end of the stream.
    pub segments: Vec<(usize, PlanKind)>,
}

fn structural_candidates(data: &[u8]) -> Vec<usize> {
    // offsets at which a read may *end* (i.e. number of bytes delivered so far)
    let mut c = Vec::new();
    for (i, &b) in data.iter().enumerate() {
        if b == b'\n' {
            if i > 0 && data[i - 1] == b'\r' {
                c.push(i); // between \r and \n
            }
            c.push(i + 1); // right after the newline
            if i > 0 {
                c.push(i); // right before the newline
            }
        }
    }
    c.sort();
    c.dedup();
    c
}

fn draw_kind(data: &[u8], allow_slow: bool) -> PlanKind {
    let k = ch("plan.kind", if allow_slow { 7 } else { 5 });
    match k {
        0 => PlanKind::Full,
        1 => PlanKind::Geometric,
        2 => {
            const T: [usize; 9] = [10 * 1024, 5 * 1024, 20 * 1024, 40 * 1024, 80 * 1024, 160 * 1024, 2560, 10 * 1024 + 1, 20 * 1024 - 1];
            PlanKind::Threshold(T[ch("plan.threshold", T.len() as u32) as usize])
        }
        3 | 4 => {
            let cands = structural_candidates(data);
            let mut cuts = Vec::new();
            if k == 3 && !cands.is_empty() {
                let n = 1 + ch("plan.cuts.n", 6);
                for _ in 0..n {
                    cuts.push(cands[ch("plan.cuts.pick", cands.len() as u32) as usize]);
                }
            } else if !data.is_empty() {
                // one split at a uniformly drawn offset
                cuts.push(range("plan.split", 0, data.len() as u64) as usize);
            }
            cuts.sort();
            cuts.dedup();
            PlanKind::Cuts(cuts)
        }
        5 => PlanKind::Uniform64,
        _ => PlanKind::Trickle1,
    }
}

pub fn draw_plan(data: &[u8]) -> ChunkPlan {
    let len = data.len();
    let small = len <= 64 * 1024;
    let nseg = 1 + ch("plan.nseg", 3) as usize;
    let mut segments = Vec::new();
    let mut at = 0usize;
    for s in 0..nseg {
        let last = s + 1 == nseg;
        let mut kind = draw_kind(data, true);
        let slow = matches!(kind, PlanKind::Trickle1 | PlanKind::Uniform64);
        let end = if last && !(slow && !small) {
            usize::MAX
        } else if slow && !small {
            // slow plans cost O(window x pending line): confine them to a window
            let w = range("plan.window", 1, 8 * 1024) as usize;
            (at + w).min(len)
        } else {
            range("plan.segend", at as u64, len as u64) as usize
        };
        if let PlanKind::Cuts(c) = &kind {
            if c.is_empty() {
                kind = PlanKind::Full;
            }
        }
        if kind == PlanKind::Trickle1 {
            probe("e1.trickle");
        }
        segments.push((end, kind));
        if end == usize::MAX {
            break;
        }
        at = end;
    }
    if segments.last().map(|s| s.0) != Some(usize::MAX) {
        segments.push((usize::MAX, PlanKind::Full));
    }
    ChunkPlan { segments }
}

impl ChunkPlan {
    pub fn full() -> ChunkPlan {
        ChunkPlan {
            segments: vec![(usize::MAX, PlanKind::Full)],
        }
    }
    /// Desired size of the next read/chunk at stream offset `pos` (before clamping).
    fn desired(&self, pos: usize, remaining: usize) -> usize {
        let mut seg_end = usize::MAX;
        let mut kind = &PlanKind::Full;
        for (end, k) in &self.segments {
            if pos < *end {
                seg_end = *end;
                kind = k;
                break;
            }
        }
        let want = match kind {
            PlanKind::Full => remaining,
            PlanKind::Trickle1 => 1,
            PlanKind::Uniform64 => 1 + ch("read.u64", 64) as usize,
            PlanKind::Geometric => 1usize << ch("read.geo", 18),
            PlanKind::Threshold(t) => (*t + ch("read.thr", 7) as usize).saturating_sub(3).max(1),
            PlanKind::Cuts(c) => match c.iter().find(|&&x| x > pos) {
                Some(&x) => x - pos,
                None => remaining,
            },
        };
        let to_seg_end = seg_end.saturating_sub(pos).max(1);
        want.min(to_seg_end).max(1)
    }
    pub fn describe(&self) -> serde_json::Value {
        json!(self
            .segments
            .iter()
            .map(|(e, k)| format!(
                "{}..{}",
                match k {
                    PlanKind::Cuts(c) => format!("cuts{:?}", c),
                    k => format!("{:?}", k),
                },
                if *e == usize::MAX { "end".to_string() } else { e.to_string() }
            ))
            .collect::<Vec<_>>())
    }
}

// ---------------------------------------------------------------------------------------------
// faults

#[derive(Clone, Debug, PartialEq)]
pub enum Fault {
    None,
    /// `Err(Interrupted)` at read number n.
    Eintr(u32),
    /// `Err(Other)` at read number n.
    Eio(u32),
    /// Clean EOF after `k` bytes.
    EarlyEof(usize),
    /// Flip one bit of the byte at offset k.
    Flip(usize, u8),
    /// Deliver chunk n twice.
    Dup(u32),
    /// Skip chunk n.
    Drop(u32),
}

pub fn draw_fault(len: usize) -> Fault {
    let nread = ch("fault.at", 12);
    match ch("fault.kind", 7) {
        0 => Fault::None,
        1 => Fault::Eintr(nread),
        2 => Fault::Eio(nread),
        3 => Fault::EarlyEof(range("fault.eof", 0, len as u64) as usize),
        4 => Fault::Flip(range("fault.flip", 0, len.saturating_sub(1) as u64) as usize, ch("fault.bit", 8) as u8),
        5 => Fault::Dup(nread),
        _ => Fault::Drop(nread),
    }
}

pub struct ReaderLog {
    pub reads: u64,
    pub max_offered: usize,
    pub delivered: Vec<u8>,
    pub sizes: Vec<u32>,
    pub hard_error_returned: bool,
    pub eintr_returned: bool,
    pub fault_fired: bool,
    pub budget_exceeded: bool,
    pub interior_ends: u32,
}

pub struct ChunkReader {
    data: Rc<Vec<u8>>,
    pos: usize,
    plan: ChunkPlan,
    fault: Fault,
    budget: u64,
    eof_answers: u32,
    pub log: Rc<RefCell<ReaderLog>>,
    record_delivered: bool,
}

impl ChunkReader {
    pub fn new(data: Rc<Vec<u8>>, plan: ChunkPlan, fault: Fault, record_delivered: bool) -> ChunkReader {
        let budget = 2 * data.len() as u64 + 64;
        ChunkReader {
            data,
            pos: 0,
            plan,
            fault,
            budget,
            eof_answers: 0,
            log: Rc::new(RefCell::new(ReaderLog {
                reads: 0,
                max_offered: 0,
                delivered: Vec::new(),
                sizes: Vec::new(),
                hard_error_returned: false,
                eintr_returned: false,
                fault_fired: false,
                budget_exceeded: false,
                interior_ends: 0,
            })),
            record_delivered,
        }
    }
}

impl Read for ChunkReader {
    fn read(&mut self, buf: &mut [u8]) -> io::Result<usize> {
        let mut log = self.log.borrow_mut();
        log.reads += 1;
        log.max_offered = log.max_offered.max(buf.len());
        if buf.len() > 4 * MAX_BUFFER {
            // far beyond the cap: stop the run here (the oracle reports c09.buffer_cap) instead
            // of letting a quadratic rescan of an ever-growing window run into the watchdog
            return Err(io::Error::other("harness: offered buffer far above the cap"));
        }
        if log.reads > self.budget {
            log.budget_exceeded = true;
            return Err(io::Error::other("harness: read budget exceeded"));
        }
        let n = log.reads as u32;
        match self.fault {
            Fault::Eintr(k) if k + 1 == n => {
                log.eintr_returned = true;
                log.fault_fired = true;
                probe("e1.fault.eintr");
                return Err(io::Error::from(io::ErrorKind::Interrupted));
            }
            Fault::Eio(k) if k + 1 == n => {
                log.hard_error_returned = true;
                log.fault_fired = true;
                probe("e1.fault.eio");
                return Err(io::Error::other("injected EIO"));
            }
            _ => {}
        }
        let mut end = self.data.len();
        if let Fault::EarlyEof(k) = self.fault {
            end = end.min(k);
        }
        if buf.is_empty() || self.pos >= end {
            if self.pos >= end && end < self.data.len() && !log.fault_fired {
                log.fault_fired = true;
                probe("e1.fault.early_eof");
            }
            if self.pos >= end && !buf.is_empty() {
                // a genuine EOF answer; a consumer that keeps asking after a handful of these spins
                self.eof_answers += 1;
                if self.eof_answers > 16 {
                    log.budget_exceeded = true;
                    return Err(io::Error::other("harness: reader asked again and again after EOF"));
                }
            }
            return Ok(0);
        }
        let remaining = end - self.pos;
        let want = self.plan.desired(self.pos, remaining);
        let mut size = want.min(remaining).min(buf.len()).max(1);
        // chunk-level faults apply to non-empty reads
        let chunk_no = log.sizes.len() as u32;
        match self.fault {
            Fault::Drop(k) if k == chunk_no && self.pos + size < end => {
                // skip this chunk's bytes entirely, deliver the next ones
                self.pos += size;
                log.fault_fired = true;
                probe("e1.fault.drop");
                let remaining = end - self.pos;
                size = self.plan.desired(self.pos, remaining).min(remaining).min(buf.len()).max(1);
            }
            _ => {}
        }
        buf[..size].copy_from_slice(&self.data[self.pos..self.pos + size]);
        if let Fault::Flip(off, bit) = self.fault {
            if off >= self.pos && off < self.pos + size {
                buf[off - self.pos] ^= 1 << bit;
                log.fault_fired = true;
                probe("e1.fault.flip");
            }
        }
        if self.record_delivered {
            log.delivered.extend_from_slice(&buf[..size]);
        }
        log.sizes.push(size as u32);
        let dup = matches!(self.fault, Fault::Dup(k) if k == chunk_no);
        if dup {
            // deliver the same bytes again on the next read: do not advance
            self.fault = Fault::None;
            log.fault_fired = true;
            probe("e1.fault.dup");
        } else {
            self.pos += size;
        }
        if self.pos < self.data.len() {
            log.interior_ends += 1;
        }
        Ok(size)
    }
}

// ---------------------------------------------------------------------------------------------
// content

pub struct Content {
    pub bytes: Vec<u8>,
    pub longest: usize,
    pub lines: usize,
    pub terminated: bool,
    pub describe: serde_json::Value,
}

fn bulk_filler(target: usize) -> Vec<Vec<u8>> {
    // cheap in tape cells: one seed
    let seed = ch("bulk.seed", u32::MAX) as u64;
    let mut r = simkit::rng::Xoshiro::new(seed);
    let mut out = Vec::new();
    let mut total = 0;
    let mut addr = 0x100000u64;
    while total < target {
        let nlen = 4 + r.below(60) as usize;
        let mut l = format!("PUBLIC {:x} {:x} ", addr, r.below(32)).into_bytes();
        for _ in 0..nlen {
            l.push(b'a' + r.below(26) as u8);
        }
        addr += 1 + r.below(64) as u64;
        total += l.len() + 1;
        out.push(l);
    }
    out
}

pub fn draw_content(for_c09: bool) -> Content {
    let size_class = ch("content.size", 10); // 0..3 small, 4,5 medium, 6 large, 7..9 long lines
    let mut opts = SymOpts::default();
    let max_long = if for_c09 { 2 << 20 } else { LINE_LIMIT - 8 };
    match size_class {
        0..=3 => opts.max_records = 12,
        4 | 5 => opts.max_records = 60,
        6 => opts.max_records = 30,
        7 => {
            opts.max_records = 10;
            opts.long_lines = true;
            opts.max_long = max_long;
        }
        _ => {
            // several long lines: drives the buffer through its growth steps
            opts.max_records = 8;
            opts.long_lines = true;
            opts.long_den = 2;
            opts.max_long = max_long;
        }
    }
    if for_c09 && chance("content.c09.longer", 1, 3) {
        opts.long_lines = true;
        opts.max_long = max_long;
    }
    if !for_c09 && chance("content.c10.overlong", 1, 12) {
        // C10 beyond its equality clause: lines above the parser's cap.  The tables may then
        // differ with the chunking (which lines get dropped is not promised); what the callback
        // is handed must still be the input, byte for byte, in order, once.
        probe("e1.c10_overlong_callback_only");
        opts.long_lines = true;
        opts.long_den = 2;
        opts.max_long = 400_000;
    }
    let mut doc = symgen::gen_doc(&opts);
    if size_class >= 4 {
        // bulk filler so that the buffer has to shift / grow naturally
        let target = match size_class {
            4 => range("content.bulk", 2_000, 30_000),
            5 => range("content.bulk", 8_000, 60_000),
            6 => range("content.bulk", 60_000, 400_000),
            _ => range("content.bulk", 0, 20_000),
        } as usize;
        let filler = bulk_filler(target);
        let at = range("content.bulk.at", 1.min(doc.lines.len() as u64), doc.lines.len() as u64) as usize;
        // never split a multi-line record with filler in a way that changes meaning for the
        // reference: the reference sees the same bytes, so any position is fair.
        let tail = doc.lines.split_off(at);
        doc.lines.extend(filler);
        doc.lines.extend(tail);
    }
    let eol = symgen::draw_eol();
    // files with several long lines are where a dangling last line meets a grown buffer
    let terminated = if size_class >= 8 { !chance("content.unterminated.long", 1, 2) } else { !chance("content.unterminated", 1, 6) };
    if !terminated {
        probe("e1.unterminated_last_line");
    }
    let (mut bytes, _starts) = symgen::render(&doc, eol, terminated);
    let corrupted = chance("content.corrupt", 1, 5);
    if corrupted {
        symgen::corrupt(&mut bytes);
    }
    let longest = symgen::longest_line(&bytes);
    let lines = bytes.iter().filter(|&&b| b == b'\n').count() + 1;
    let terminated = bytes.last() == Some(&b'\n') || bytes.is_empty();
    let preview: String = bytes.iter().take(400).flat_map(|&b| std::ascii::escape_default(b)).map(|b| b as char).collect();
    Content {
        describe: json!({"preview": preview, "len": bytes.len(), "lines": lines, "longest_line": longest, "eol": format!("{:?}", eol), "last_line_terminated": terminated, "corrupted": corrupted, "size_class": size_class}),
        bytes,
        longest,
        lines,
        terminated,
    }
}

// ---------------------------------------------------------------------------------------------
// running the parsers

pub struct Streamed {
    pub result: Result<SymbolFile, SymbolError>,
    pub callback_ok: Result<(), String>,
    pub callback_total: usize,
    pub sizes: Vec<u32>,
    pub reads: u64,
    pub max_offered: usize,
    pub delivered: Option<Vec<u8>>,
    pub hard_error: bool,
    pub eintr: bool,
    pub fault_fired: bool,
    pub budget_exceeded: bool,
    pub interior_ends: u32,
    pub peak_window: isize,
    pub steps: u64,
}

/// Checks incrementally that the callback's slices concatenate to a prefix of `expect`.
struct PrefixCheck {
    expect: Rc<RefCell<Vec<u8>>>,
    fixed: Option<Rc<Vec<u8>>>,
    at: usize,
    err: Option<String>,
}
impl PrefixCheck {
    fn feed(&mut self, data: &[u8]) {
        if self.err.is_some() {
            return;
        }
        let ok = if let Some(f) = &self.fixed {
            f.len() >= self.at + data.len() && &f[self.at..self.at + data.len()] == data
        } else {
            let e = self.expect.borrow();
            e.len() >= self.at + data.len() && &e[self.at..self.at + data.len()] == data
        };
        if !ok {
            self.err = Some(format!("callback bytes diverge from the delivered stream at offset {}", self.at));
        }
        self.at += data.len();
    }
}

pub fn parse_sync(data: Rc<Vec<u8>>, plan: ChunkPlan, fault: Fault) -> Streamed {
    let faulty = fault != Fault::None;
    let reader = ChunkReader::new(data.clone(), plan, fault, faulty);
    let log = reader.log.clone();
    // The delivered stream is only materialised under faults; otherwise it is `data`.
    let mut pc = PrefixCheck {
        expect: Rc::new(RefCell::new(Vec::new())),
        fixed: if faulty { None } else { Some(data.clone()) },
        at: 0,
        err: None,
    };
    let log2 = log.clone();
    simkit::alloc::reset_peak();
    let live_before = simkit::alloc::live();
    let result = SymbolFile::parse(reader, |bytes| {
        if pc.fixed.is_some() {
            pc.feed(bytes);
        } else {
            // compare against what the reader has delivered so far
            let l = log2.borrow();
            let ok = l.delivered.len() >= pc.at + bytes.len() && &l.delivered[pc.at..pc.at + bytes.len()] == bytes;
            if !ok && pc.err.is_none() {
                pc.err = Some(format!("callback bytes diverge from the delivered stream at offset {}", pc.at));
            }
            pc.at += bytes.len();
        }
    });
    let peak = simkit::alloc::peak();
    let live_after = simkit::alloc::live();
    let l = log.borrow();
    Streamed {
        result,
        callback_ok: match pc.err {
            Some(e) => Err(e),
            None => Ok(()),
        },
        callback_total: pc.at,
        sizes: l.sizes.clone(),
        reads: l.reads,
        max_offered: l.max_offered,
        delivered: if faulty { Some(l.delivered.clone()) } else { None },
        hard_error: l.hard_error_returned,
        eintr: l.eintr_returned,
        fault_fired: l.fault_fired,
        budget_exceeded: l.budget_exceeded,
        interior_ends: l.interior_ends,
        peak_window: peak - live_before.max(live_after),
        steps: 0,
    }
}

#[derive(Clone, Copy, Debug, PartialEq)]
pub enum BodyFault {
    None,
    Reset(usize),
    CleanCut(usize),
}

pub fn parse_async(data: Rc<Vec<u8>>, plan: &ChunkPlan, fault: BodyFault) -> Result<Streamed, Violation> {
    probe("e1.async_path");
    // chunk sizes from the plan (no buffer-space clamp: HTTP chunks are what the wire delivers)
    let end = match fault {
        BodyFault::None => data.len(),
        BodyFault::Reset(k) | BodyFault::CleanCut(k) => k.min(data.len()),
    };
    let mut sizes = Vec::new();
    let mut pos = 0;
    while pos < end {
        let s = plan.desired(pos, end - pos).min(end - pos).max(1);
        sizes.push(s);
        pos += s;
    }
    let delays: Vec<u64> = sizes
        .iter()
        .map(|_| if chance("async.pending", 1, 3) { 1_000 + draw_delay("async.delay") } else { 0 })
        .collect();
    let body = data[..end].to_vec();
    let delivered = body.clone();
    let mut p = reqwest::sim::Plan::ok(body);
    p.chunks = sizes.clone();
    p.chunk_delays = delays;
    p.end = match fault {
        BodyFault::Reset(_) => reqwest::sim::BodyEnd::Reset,
        _ => reqwest::sim::BodyEnd::Clean,
    };
    p.end_delay = if chance("async.end_pending", 1, 3) { 5_000 } else { 0 };
    reqwest::sim::install(|_| reqwest::sim::Plan::status(500));
    let resp = reqwest::sim::response_from_plan("http://sym.example/x.sym", p);
    let out: Rc<RefCell<Option<Result<SymbolFile, SymbolError>>>> = Rc::new(RefCell::new(None));
    let pcs = Rc::new(RefCell::new(PrefixCheck {
        expect: Rc::new(RefCell::new(Vec::new())),
        fixed: Some(Rc::new(delivered.clone())),
        at: 0,
        err: None,
    }));
    let cfg = ExecConfig {
        policy: Policy::Fifo,
        spurious_den: [0u32, 8, 2][ch("async.spurious", 3) as usize],
        time_pass_den: 0,
        step_budget: 4 * sizes.len() as u64 + 4 * data.len() as u64 + 1000,
        ..ExecConfig::default()
    };
    let mut ex = Exec::new(cfg);
    let out2 = out.clone();
    let pcs2 = pcs.clone();
    // Heap metering of the async parse: the body, the delivered-bytes record and the prefix
    // checker are allocated before this point; what is live above `live_before` during the
    // run is the parser's window, at most two wire chunks (the one being copied and the next
    // one replacing it) and the executor's bookkeeping.
    let max_chunk = sizes.iter().copied().max().unwrap_or(0) as isize;
    simkit::alloc::reset_peak();
    let live_before = simkit::alloc::live();
    ex.spawn("parse_async", async move {
        let r = SymbolFile::parse_async(resp, |bytes| pcs2.borrow_mut().feed(bytes)).await;
        *out2.borrow_mut() = Some(r);
    });
    let stop = ex.run(|_, _| Ok(()))?;
    let peak_window = (simkit::alloc::peak() - live_before - 2 * max_chunk).max(0);
    match stop {
        Stop::AllDone => {}
        Stop::Deadlock(_) => return Err(Violation::new("c09.async_deadlock", "parse_async never completed although the whole body was delivered (lost wake-up)")),
        Stop::Budget => return Err(Violation::new("c09.async_livelock", "parse_async exceeded the step budget")),
    }
    let snaps = reqwest::sim::snapshots();
    let snap = snaps.last().unwrap();
    let result = out.borrow_mut().take().expect("task finished");
    let pc = pcs.borrow();
    let interior = sizes.len().saturating_sub(1) as u32;
    Ok(Streamed {
        result,
        callback_ok: match &pc.err {
            Some(e) => Err(e.clone()),
            None => Ok(()),
        },
        callback_total: pc.at,
        sizes: sizes.iter().map(|&s| s as u32).collect(),
        reads: sizes.len() as u64,
        max_offered: 0,
        delivered: Some(snap.delivered.clone()),
        hard_error: matches!(fault, BodyFault::Reset(_)) && snap.saw_err,
        eintr: false,
        fault_fired: fault != BodyFault::None,
        budget_exceeded: false,
        interior_ends: interior,
        peak_window,
        steps: ex.steps,
    })
}

fn same_outcome(a: &Result<SymbolFile, SymbolError>, b: &Result<SymbolFile, SymbolError>) -> Result<(), String> {
    match (a, b) {
        (Ok(x), Ok(y)) => {
            if x == y {
                Ok(())
            } else {
                Err(format!(
                    "both parses succeed but the tables differ (functions {} vs {}, publics {} vs {}, cfi {} vs {}, win {}+{} vs {}+{}, files {} vs {}, url {:?} vs {:?})",
                    x.functions.ranges_values().count(),
                    y.functions.ranges_values().count(),
                    x.publics.len(),
                    y.publics.len(),
                    x.cfi_stack_info.ranges_values().count(),
                    y.cfi_stack_info.ranges_values().count(),
                    x.win_stack_framedata_info.ranges_values().count(),
                    x.win_stack_fpo_info.ranges_values().count(),
                    y.win_stack_framedata_info.ranges_values().count(),
                    y.win_stack_fpo_info.ranges_values().count(),
                    x.files.len(),
                    y.files.len(),
                    x.url.is_some(),
                    y.url.is_some(),
                ))
            }
        }
        (Err(_), Err(_)) => Ok(()),
        (Ok(_), Err(e)) => Err(format!("streamed parse succeeds, whole-buffer parse fails ({})", err_class(e))),
        (Err(e), Ok(_)) => Err(format!("streamed parse fails ({}), whole-buffer parse succeeds", err_class(e))),
    }
}

fn err_class(e: &SymbolError) -> String {
    match e {
        SymbolError::NotFound => "NotFound".into(),
        SymbolError::MissingDebugFileOrId => "MissingDebugFileOrId".into(),
        SymbolError::LoadError(_) => "LoadError".into(),
        SymbolError::ParseError(m, _) => format!("ParseError: {m}"),
    }
}

fn count_growth_probes(max_offered: usize) {
    if max_offered > 10 * 1024 {
        probe("e1.grow_20k");
    }
    if max_offered > 20 * 1024 {
        probe("e1.grow_40k");
    }
    if max_offered > 40 * 1024 {
        probe("e1.grow_80k");
    }
    if max_offered > 80 * 1024 {
        probe("e1.grow_160k");
    }
}

fn split_in_crlf(data: &[u8], sizes: &[u32]) -> bool {
    let mut pos = 0usize;
    for &s in sizes {
        pos += s as usize;
        if pos < data.len() && pos > 0 && data[pos] == b'\n' && data[pos - 1] == b'\r' {
            return true;
        }
    }
    false
}

// ---------------------------------------------------------------------------------------------
// C10

/// Every single split point of a small file (the quantifier's "exhaustively" clause): one run
/// parses the same bytes once per split offset, sync and (for a tape-chosen residue class) async.
fn c10_all_single_splits() -> Outcome {
    let mut opts = SymOpts::default();
    opts.max_records = 10;
    let doc = symgen::gen_doc(&opts);
    let eol = symgen::draw_eol();
    let terminated = !chance("c10.splits.unterminated", 1, 4);
    let (mut bytes, _) = symgen::render(&doc, eol, terminated);
    if chance("c10.splits.corrupt", 1, 6) {
        symgen::corrupt(&mut bytes);
    }
    bytes.truncate(1500);
    let data = Rc::new(bytes);
    let reference = SymbolFile::from_bytes(&data);
    let async_class = ch("c10.splits.async_class", 8) as usize;
    let preview: String = data.iter().take(300).flat_map(|&b| std::ascii::escape_default(b)).map(|b| b as char).collect();
    let info = json!({"scenario": "all single split points", "len": data.len(), "preview": preview, "eol": format!("{:?}", eol), "last_line_terminated": data.last() == Some(&b'\n') || data.is_empty(), "reference": match &reference { Ok(_) => "Ok".to_string(), Err(e) => err_class(e) }});
    let mut splits = 0u32;
    let result = (|| -> simkit::Check {
        for k in 0..=data.len() {
            let plan = ChunkPlan { segments: vec![(usize::MAX, PlanKind::Cuts(vec![k]))] };
            let mut runs: Vec<(&'static str, Streamed)> = vec![("sync", parse_sync(data.clone(), plan.clone(), Fault::None))];
            if k % 8 == async_class {
                runs.push(("async", parse_async(data.clone(), &plan, BodyFault::None)?));
            }
            for (name, s) in &runs {
                splits += 1;
                simkit::ensure!(!s.budget_exceeded, "c10.read_budget", "{} parse called read more than 2*len+64 times or kept reading after EOF", name);
                if let Err(e) = &s.callback_ok {
                    return Err(Violation::new("c10.callback_not_prefix", format!("{name}: {}", normalise(e))));
                }
                if s.result.is_ok() {
                    simkit::ensure!(s.callback_total == data.len(), "c10.callback_incomplete", "{}: parse succeeded but the callback saw {} the input", name, if s.callback_total < data.len() { "less than" } else { "more than" });
                }
                if let Err(e) = same_outcome(&s.result, &reference) {
                    let tail = if data.last() == Some(&b'\n') || data.is_empty() { "" } else { " [input's last line is not newline-terminated]" };
                    return Err(Violation::new("c10.outcome_differs", format!("{name}: {e}{tail}")));
                }
            }
        }
        probe("e1.all_single_splits");
        if data.windows(2).any(|w| w == b"\r\n") {
            probe("e1.split_in_crlf");
        }
        Ok(())
    })();
    simkit::probe_add("e1.split_points_checked", splits as u64);
    Outcome {
        result,
        nontrivial: data.len() >= 8 && data.iter().filter(|&&b| b == b'\n').count() >= 2,
        key: simkit::rng::mix(&[crate::common::fnv(&data), 0x5117]),
        info,
    }
}

pub fn run_c10() -> Outcome {
    if chance("c10.scenario.all_splits", 1, 8) {
        return c10_all_single_splits();
    }
    let content = draw_content(false);
    let data = Rc::new(content.bytes);
    let plan = draw_plan(&data);
    let path = ch("c10.path", 3); // 0 sync, 1 async, 2 both
    let reference = SymbolFile::from_bytes(&data);
    let in_scope = content.longest < LINE_LIMIT;
    let path_name = ["sync", "async", "both"][path as usize];
    let mut info = json!({"content": content.describe, "plan": plan.describe(), "path": path_name, "reference": match &reference { Ok(_) => "Ok".to_string(), Err(e) => err_class(e) }});
    let mut all_sizes: Vec<u32> = Vec::new();
    let mut interior = 0;

    let result = (|| -> simkit::Check {
        let mut outcomes: Vec<(&'static str, Streamed)> = Vec::new();
        if path == 0 || path == 2 {
            outcomes.push(("sync", parse_sync(data.clone(), plan.clone(), Fault::None)));
        }
        if path == 1 || path == 2 {
            outcomes.push(("async", parse_async(data.clone(), &plan, BodyFault::None)?));
        }
        for (name, s) in &outcomes {
            all_sizes.extend_from_slice(&s.sizes);
            all_sizes.push(u32::MAX);
            interior = interior.max(s.interior_ends);
            count_growth_probes(s.max_offered);
            if split_in_crlf(&data, &s.sizes) {
                probe("e1.split_in_crlf");
            }
            simkit::ensure!(!s.budget_exceeded, "c10.read_budget", "{} parse called read more than 2*len+64 times or kept reading after EOF", name);
            // (b) prefix clause: always
            if let Err(e) = &s.callback_ok {
                return Err(Violation::new("c10.callback_not_prefix", format!("{name}: {}", normalise(e))));
            }
            if s.result.is_ok() {
                simkit::ensure!(
                    s.callback_total == data.len(),
                    "c10.callback_incomplete",
                    "{}: parse succeeded but the callback saw {} the input",
                    name,
                    if s.callback_total < data.len() { "less than" } else { "more than" }
                );
            }
            // (a) same outcome as the whole-buffer parse, for inputs inside the quantifier
            if in_scope {
                if let Err(e) = same_outcome(&s.result, &reference) {
                    let tail = if content.terminated { "" } else { " [input's last line is not newline-terminated]" };
                    return Err(Violation::new("c10.outcome_differs", format!("{name}: {e}{tail}")));
                }
            }
        }
        if outcomes.len() == 2 && in_scope {
            if let Err(e) = same_outcome(&outcomes[0].1.result, &outcomes[1].1.result) {
                return Err(Violation::new("c10.sync_async_differ", e));
            }
        }
        info["streamed"] = json!(outcomes.iter().map(|(n, s)| json!({"path": n, "reads_or_chunks": s.reads, "outcome": match &s.result { Ok(_) => "Ok".to_string(), Err(e) => err_class(e) }, "max_buffer_offered": s.max_offered})).collect::<Vec<_>>());
        Ok(())
    })();

    let key = simkit::rng::mix(&[crate::common::fnv(&data), crate::common::fnv(&all_sizes.iter().flat_map(|s| s.to_le_bytes()).collect::<Vec<u8>>())]);
    Outcome {
        result,
        nontrivial: interior >= 2 && content.lines >= 2,
        key,
        info,
    }
}

fn normalise(s: &str) -> String {
    s.chars().map(|c| if c.is_ascii_digit() { '#' } else { c }).collect()
}

// ---------------------------------------------------------------------------------------------
// C09

fn thread_cpu_ns() -> u64 {
    let mut ts = libc::timespec { tv_sec: 0, tv_nsec: 0 };
    // SAFETY: plain syscall wrapper writing into a local
    unsafe { libc::clock_gettime(libc::CLOCK_THREAD_CPUTIME_ID, &mut ts) };
    ts.tv_sec as u64 * 1_000_000_000 + ts.tv_nsec as u64
}

/// Many records of one kind, once in ascending and once in descending address order: the CPU time
/// of the two parses (this thread's CPU clock, so other load does not count) must be of the same
/// order.  A table-building step that is linear for sorted input and quadratic otherwise makes a
/// hostile file of a few megabytes take minutes — "never loops forever" in practice.  This is the
/// one oracle that reads a clock; its verdict needs a factor of 12 and at least 0.4 s.
fn c09_order_sensitivity() -> Outcome {
    probe("e1.order_sensitivity");
    let n = range("c09.order.n", 40_000, 90_000);
    let kind = ch("c09.order.kind", 6);
    let line = |k: u64| -> String {
        match kind {
            0 => format!("STACK CFI {:x} .cfa: $rsp {} +", 0x1001 + k, 8 + (k % 64) * 8),
            1 => format!("{:x} 1 {} 0", 0x1000 + k, 1 + k % 5000),
            2 => format!("PUBLIC {:x} 0 p{}", 0x1000 + k * 4, k),
            3 => format!("FUNC {:x} 4 0 f{}", 0x1000 + k * 4, k),
            4 => format!("INLINE {} {} 0 0 {:x} 1", k % 3, 1 + k % 5000, 0x1000 + k),
            _ => format!("FILE {} src/file_{}.c", k, k),
        }
    };
    let head = match kind {
        0 => format!("STACK CFI INIT 1000 {:x} .cfa: $rsp 8 + .ra: .cfa 8 - ^\n", n + 16),
        1 | 4 => format!("FILE 0 a.c\nINLINE_ORIGIN 0 inl\nFUNC 1000 {:x} 0 big\n", n + 16),
        _ => String::new(),
    };
    let build = |descending: bool| -> Vec<u8> {
        let mut s = String::with_capacity(n as usize * 40);
        s.push_str("MODULE Linux x86_64 000000000000000000000000000000000 order.so\n");
        s.push_str(&head);
        for i in 0..n {
            let k = if descending { n - 1 - i } else { i };
            s.push_str(&line(k));
            s.push('\n');
        }
        s.into_bytes()
    };
    let kinds = ["STACK CFI deltas of one INIT", "line records of one FUNC", "PUBLIC", "FUNC", "INLINE records of one FUNC", "FILE"];
    let mut times = [0u64; 2];
    let mut outcome = [String::new(), String::new()];
    for (i, desc) in [false, true].into_iter().enumerate() {
        let data = build(desc);
        let t0 = thread_cpu_ns();
        let r = SymbolFile::from_bytes(&data);
        times[i] = thread_cpu_ns() - t0;
        outcome[i] = match &r {
            Ok(_) => "Ok".to_string(),
            Err(e) => err_class(e),
        };
    }
    let info = json!({"scenario": "order sensitivity", "records": n, "kind": kinds[kind as usize], "cpu_ms_ascending": times[0] / 1_000_000, "cpu_ms_descending": times[1] / 1_000_000, "outcomes": outcome});
    let result = (|| -> simkit::Check {
        let (lo, hi) = (times[0].min(times[1]).max(1), times[0].max(times[1]));
        simkit::ensure!(
            !(hi >= 400_000_000 && hi / lo >= 12),
            "c09.order_sensitive_time",
            "parsing the same records in another order takes more than twelve times the CPU time ({}): a table-building step is quadratic for unsorted input",
            kinds[kind as usize]
        );
        Ok(())
    })();
    Outcome {
        result,
        nontrivial: true,
        key: simkit::rng::mix(&[n, kind as u64]),
        info,
    }
}

pub fn run_c09() -> Outcome {
    if chance("c09.scenario.order", 1, 400) {
        return c09_order_sensitivity();
    }
    let scenario = ch("c09.scenario", 8);
    match scenario {
        0 | 1 => c09_long_line_dropped(),
        2 => c09_giant_line(),
        _ => c09_general(),
    }
}

fn window_bound(len: usize, retained_small: bool) -> isize {
    if retained_small {
        1 << 20
    } else {
        (1 << 20) + 64 * len as isize
    }
}

fn c09_general() -> Outcome {
    let content = draw_content(true);
    let data = Rc::new(content.bytes);
    let plan = draw_plan(&data);
    let use_async = chance("c09.async", 1, 4);
    let mut info = json!({"scenario": "general", "content": content.describe, "plan": plan.describe()});
    let mut nontrivial = false;
    let mut keyparts: Vec<u8> = Vec::new();
    let result = (|| -> simkit::Check {
        let s = if use_async {
            let bf = match ch("c09.bodyfault", 3) {
                0 => BodyFault::None,
                1 => BodyFault::Reset(range("c09.reset_at", 0, data.len() as u64) as usize),
                _ => BodyFault::CleanCut(range("c09.cut_at", 0, data.len() as u64) as usize),
            };
            info["fault"] = json!(format!("{:?}", bf));
            let s = parse_async(data.clone(), &plan, bf)?;
            if s.hard_error {
                probe("e1.fault.body_reset");
            }
            s
        } else {
            let fault = draw_fault(data.len());
            info["fault"] = json!(format!("{:?}", fault));
            parse_sync(data.clone(), plan.clone(), fault)
        };
        count_growth_probes(s.max_offered);
        keyparts.extend(s.sizes.iter().flat_map(|x| x.to_le_bytes()));
        info["outcome"] = json!(match &s.result { Ok(_) => "Ok".to_string(), Err(e) => err_class(e) });
        info["reads_or_chunks"] = json!(s.reads);
        info["max_buffer_offered"] = json!(s.max_offered);
        info["peak_window_bytes"] = json!(s.peak_window);
        nontrivial = s.fault_fired || s.max_offered > 10 * 1024;
        // 2. terminates
        simkit::ensure!(!s.budget_exceeded, "c09.read_budget", "read was called more than 2*len+64 times, or more than 16 times after the reader had answered EOF (the parser does not make progress)");
        // 3. bounded window
        simkit::ensure!(s.max_offered <= MAX_BUFFER, "c09.buffer_cap", "a buffer larger than 160 KiB was offered to the reader");
        let delivered: &[u8] = s.delivered.as_deref().unwrap_or(&data);
        let bound = window_bound(delivered.len(), false);
        simkit::ensure!(s.peak_window <= bound, "c09.memory_window", "peak live heap during the parse exceeded 1 MiB + 64 x input length");
        // 4. outcome class
        match &s.result {
            Err(SymbolError::LoadError(_)) => {
                simkit::ensure!(s.hard_error || s.eintr, "c09.load_error_without_fault", "LoadError although the reader never failed");
            }
            Err(SymbolError::ParseError(..)) | Ok(_) => {
                simkit::ensure!(!s.hard_error, "c09.reader_error_swallowed", "the reader returned an error but the parse did not report LoadError");
            }
            Err(e) => return Err(Violation::new("c09.outcome_class", format!("unexpected error class {}", err_class(e)))),
        }
        // 6. callback prefix
        if let Err(e) = &s.callback_ok {
            return Err(Violation::new("c09.callback_not_prefix", normalise(e)));
        }
        // relaxed equality: with every delivered line inside the limit, outcome == from_bytes(delivered)
        if !s.hard_error && !s.eintr && symgen::longest_line(delivered) < LINE_LIMIT {
            let reference = SymbolFile::from_bytes(delivered);
            if let Err(e) = same_outcome(&s.result, &reference) {
                let term = delivered.last() == Some(&b'\n') || delivered.is_empty();
                let tail = if term { "" } else { " [delivered stream's last line is not newline-terminated]" };
                return Err(Violation::new("c09.outcome_differs_from_delivered", format!("{e}{tail}")));
            }
        }
        Ok(())
    })();
    let key = simkit::rng::mix(&[crate::common::fnv(&data), crate::common::fnv(&keyparts), crate::common::fnv(info["fault"].to_string().as_bytes())]);
    Outcome {
        result,
        nontrivial,
        key,
        info,
    }
}

/// Oracle 5: an over-long line is dropped, not fatal, and changes nothing else.
fn c09_long_line_dropped() -> Outcome {
    // a base file that parses
    let mut opts = SymOpts::default();
    opts.fatal_lines = false;
    opts.max_records = 14;
    let mut doc = symgen::gen_doc(&opts);
    if chance("c09.ll.bulk", 1, 3) {
        let filler = bulk_filler(range("c09.ll.bulk.size", 1000, 200_000) as usize);
        doc.lines.extend(filler);
    }
    let eol = symgen::draw_eol();
    let (base, starts) = symgen::render(&doc, eol, true);
    let base_parse = SymbolFile::from_bytes(&base);
    let mut info = json!({"scenario": "over-long line dropped", "base_len": base.len(), "base_lines": doc.lines.len()});
    let Ok(base_table) = base_parse else {
        // numeric extremes may make the base fail (e.g. a 17-digit address): nothing to compare
        return Outcome {
            result: Ok(()),
            nontrivial: false,
            key: 0,
            info,
        };
    };
    // insert one line >= 400 KiB after the first line
    let long_len = range("c09.ll.len", 400 * 1024, 1200 * 1024) as usize;
    let at_line = range("c09.ll.at", 1, doc.lines.len().max(1) as u64) as usize;
    let at = if at_line >= starts.len() { base.len() } else { starts[at_line] };
    let mut long = match ch("c09.ll.kind", 3) {
        0 => b"FUNC 1000 10 0 ".to_vec(),
        1 => b"STACK CFI INIT 1000 10 .cfa: ".to_vec(),
        _ => Vec::new(),
    };
    let fill = symgen::name("c09.ll.fill", 64);
    while long.len() < long_len {
        long.extend_from_slice(&fill);
    }
    long.truncate(long_len);
    match eol {
        Eol::CrLf => long.extend_from_slice(b"\r\n"),
        _ => long.push(b'\n'),
    }
    let mut with = base[..at].to_vec();
    with.extend_from_slice(&long);
    with.extend_from_slice(&base[at..]);
    let data = Rc::new(with);
    let plan = draw_plan(&data);
    info["long_line_len"] = json!(long_len);
    info["inserted_before_line"] = json!(at_line);
    info["plan"] = plan.describe();
    let mut keyparts = Vec::new();
    let result = (|| -> simkit::Check {
        let s = if chance("c09.ll.async", 1, 4) { parse_async(data.clone(), &plan, BodyFault::None)? } else { parse_sync(data.clone(), plan.clone(), Fault::None) };
        keyparts.extend(s.sizes.iter().flat_map(|x| x.to_le_bytes()));
        probe("e1.recovery_entered");
        simkit::ensure!(!s.budget_exceeded, "c09.read_budget", "read was called more than 2*len+64 times, or more than 16 times after the reader had answered EOF (the parser does not make progress)");
        simkit::ensure!(s.max_offered <= MAX_BUFFER, "c09.buffer_cap", "a buffer larger than 160 KiB was offered to the reader");
        if let Err(e) = &s.callback_ok {
            return Err(Violation::new("c09.callback_not_prefix", normalise(e)));
        }
        match &s.result {
            Ok(t) => {
                simkit::ensure!(t == &base_table, "c09.long_line_changes_table", "dropping the over-long line changed the rest of the table");
                simkit::ensure!(s.callback_total == data.len(), "c09.callback_incomplete", "parse succeeded but the callback did not see the whole input");
                probe("e1.long_line_dropped_ok");
                Ok(())
            }
            Err(e) => Err(Violation::new("c09.long_line_fatal", format!("a single over-long line made the parse fail ({})", err_class(e)))),
        }
    })();
    let key = simkit::rng::mix(&[crate::common::fnv(&data), crate::common::fnv(&keyparts)]);
    Outcome {
        result,
        nontrivial: true,
        key,
        info,
    }
}

/// Giant single line (2–8 MiB), with or without a newline: bounded window, terminates.
fn c09_giant_line() -> Outcome {
    probe("e1.giant_line");
    let len = range("c09.giant.len", 2 << 20, 8 << 20) as usize;
    let mut data = b"MODULE Linux x86 000000000000000000000000000000000 giant.so\n".to_vec();
    let prefix_lines = ch("c09.giant.prefix", 3);
    for i in 0..prefix_lines {
        data.extend_from_slice(format!("PUBLIC {:x} 0 p{}\n", 0x1000 + i * 16, i).as_bytes());
    }
    let fill = symgen::name("c09.giant.fill", 97);
    let start = data.len();
    data.extend_from_slice(b"PUBLIC 9000 0 ");
    while data.len() - start < len {
        data.extend_from_slice(&fill);
    }
    let ends_inside = chance("c09.giant.no_newline", 1, 2);
    if !ends_inside {
        data.push(b'\n');
        data.extend_from_slice(b"PUBLIC a000 0 after\n");
    }
    let data = Rc::new(data);
    // one run in three takes the HTTP path (wire chunks of bounded size, so that the two
    // chunks the metering allows for stay far below the bound)
    let use_async = chance("c09.giant.async", 1, 3);
    let plan = match if use_async { 1 + ch("c09.giant.plan", 2) } else { ch("c09.giant.plan", 3) } {
        0 => ChunkPlan::full(),
        1 => ChunkPlan { segments: vec![(usize::MAX, PlanKind::Geometric)] },
        _ => ChunkPlan { segments: vec![(usize::MAX, PlanKind::Threshold(40 * 1024))] },
    };
    let info = json!({"scenario": "giant line", "len": data.len(), "ends_inside_line": ends_inside, "plan": plan.describe(), "path": if use_async { "async" } else { "sync" }});
    let mut keyparts = Vec::new();
    let result = (|| -> simkit::Check {
        let s = if use_async {
            probe("e1.giant_line_async");
            parse_async(data.clone(), &plan, BodyFault::None)?
        } else {
            parse_sync(data.clone(), plan.clone(), Fault::None)
        };
        keyparts.extend(s.sizes.iter().take(64).flat_map(|x| x.to_le_bytes()));
        simkit::ensure!(!s.budget_exceeded, "c09.read_budget", "read was called more than 2*len+64 times, or more than 16 times after the reader had answered EOF (the parser does not make progress)");
        simkit::ensure!(s.max_offered <= MAX_BUFFER, "c09.buffer_cap", "a buffer larger than 160 KiB was offered to the reader");
        simkit::ensure!(s.peak_window <= window_bound(data.len(), true), "c09.memory_window", "peak live heap while parsing a giant line exceeded 1 MiB (the parser keeps more than a fixed window of unparsed input)");
        if let Err(e) = &s.callback_ok {
            return Err(Violation::new("c09.callback_not_prefix", normalise(e)));
        }
        match &s.result {
            Ok(t) => {
                let want = prefix_lines as usize + if ends_inside { 0 } else { 1 };
                simkit::ensure!(t.publics.len() == want, "c09.giant_line_table", "the records around the giant line were not kept exactly");
                Ok(())
            }
            Err(e) => Err(Violation::new("c09.long_line_fatal", format!("a single over-long line made the parse fail ({})", err_class(e)))),
        }
    })();
    let key = simkit::rng::mix(&[crate::common::fnv(&data[data.len().saturating_sub(4096)..]), data.len() as u64, crate::common::fnv(&keyparts)]);
    Outcome {
        result,
        nontrivial: true,
        key,
        info,
    }
}
