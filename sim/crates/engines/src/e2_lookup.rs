//! E2 `lookup` — C12: a module's symbols are located once, however concurrent lookups interleave.
//!
//! Real `Symbolizer` (real `CachedAsyncResult`, `CacheMap`, counters) over a scripted supplier
//! whose answers are gated by simulator events; 2–4 tasks (or one `join_all`, or a `join_all`
//! of > 30) issue 1–3 lookups each over 1–3 module keys.  Second scenario: the real
//! `HttpSymbolSupplier::locate_file` (same caching pattern) over the simulated transport.

use crate::common::{draw_delay_nz, draw_exec_config, exec_config_json};
use async_trait::async_trait;
use breakpad_symbols::{
    FileError, FileKind, FrameWalker, LocateSymbolsResult, Module, SimpleFrame, SimpleModule,
    SymbolError, SymbolFile, SymbolSupplier, Symbolizer,
};
use debugid::{CodeId, DebugId};
use serde_json::json;
use simkit::exec::Gate;
use simkit::{ch, chance, probe, Exec, Outcome, Stop, Violation};
use std::cell::RefCell;
use std::collections::BTreeMap;
use std::path::PathBuf;
use std::rc::Rc;
use std::str::FromStr;
use std::sync::{Arc, Mutex};

pub const RULE: &str = "Each run draws from one tape: scenario (independent executor tasks | one task wrapping futures_util::join_all | join_all of 31-36 children | real HttpSymbolSupplier::locate_file over the simulated transport | real process_minidump on a generated multi-thread dump, whose lookups are issued by the real join_all / FuturesUnordered of real stack walkers, optionally with 1-2 concurrent companion processings on the same symbolizer), 1-3 module keys (variants differing in exactly one of code_file / code_id / debug_file / debug_id, sharing leaf names) plus their (debug_file, debug_id) tuple siblings, per key a scripted outcome Ok | NotFound | ParseError | LoadError behind 0-3 gates opened by simulated-clock events, 2-4 tasks x 1-3 lookups (fill_symbol | walk_frame | get_symbol_at_address), executor policy (fifo | lifo | random | pct), spurious-poll probability (0 | 1/16 | 1/4), let-time-pass probability. A run is NON-TRIVIAL iff at least two lookups of the same key overlapped (the second was invoked before the first returned) and at least one context switch between tasks happened. DISTINCT = distinct (world, full decision trace: every poll with its task and result, every event fired) digests among non-trivial runs.";

type MKey = (String, Option<String>, Option<String>, Option<String>);

fn mkey(m: &(dyn Module + Sync)) -> MKey {
    (
        m.code_file().to_string(),
        m.code_identifier().map(|s| s.to_string()),
        m.debug_file().map(|s| s.to_string()),
        m.debug_identifier().map(|s| s.to_string()),
    )
}

#[derive(Clone, Copy, Debug, PartialEq, Eq)]
enum Scripted {
    Ok,
    NotFound,
    ParseError,
    LoadError,
}

#[derive(Clone, Debug)]
struct Entry {
    id: usize,
    outcome: Scripted,
    gates: u32,
}

#[derive(Default)]
struct SupState {
    calls_total: BTreeMap<usize, u32>,
    in_flight: BTreeMap<usize, u32>,
    completed: BTreeMap<usize, bool>,
    violation: Option<Violation>,
    unknown_key_calls: u32,
    call_log: Vec<(u64, usize)>,
}

struct ScriptedSupplier {
    script: BTreeMap<MKey, Entry>,
    state: Arc<Mutex<SupState>>,
    seq: Arc<Mutex<u64>>,
}

fn sym_text(entry_id: usize) -> String {
    format!(
        "MODULE windows x86 000000000000000000000000000000000 mod{0}.pdb\nFUNC 1000 100 0 fn_e{0}\nSTACK CFI INIT 1000 100 .cfa: $esp {1} + .ra: .cfa 4 - ^\n",
        entry_id,
        8 + 4 * entry_id
    )
}

#[async_trait]
impl SymbolSupplier for ScriptedSupplier {
    async fn locate_symbols(
        &self,
        module: &(dyn Module + Sync),
    ) -> Result<LocateSymbolsResult, SymbolError> {
        let k = mkey(module);
        let Some(entry) = self.script.get(&k).cloned() else {
            self.state.lock().unwrap().unknown_key_calls += 1;
            return Err(SymbolError::NotFound);
        };
        {
            let mut st = self.state.lock().unwrap();
            let s = {
                let mut q = self.seq.lock().unwrap();
                *q += 1;
                *q
            };
            st.call_log.push((s, entry.id));
            let total = st.calls_total.entry(entry.id).or_insert(0);
            *total += 1;
            let total = *total;
            let inflight = st.in_flight.entry(entry.id).or_insert(0);
            *inflight += 1;
            let inflight = *inflight;
            if st.violation.is_none() {
                if inflight > 1 {
                    st.violation = Some(Violation::new(
                        "c12.supplier_concurrent",
                        "two locate_symbols calls for the same module were in flight at once",
                    ));
                } else if total > 1 {
                    st.violation = Some(Violation::new(
                        "c12.supplier_asked_twice",
                        "the supplier was asked more than once for the same module",
                    ));
                }
            }
        }
        simkit::trace("sup.call", entry.id as u64, 0);
        for _ in 0..entry.gates {
            let g = Gate::new();
            g.open_after("supplier.gate", draw_delay_nz("sup.delay"));
            g.wait().await;
        }
        {
            let mut st = self.state.lock().unwrap();
            *st.in_flight.get_mut(&entry.id).unwrap() -= 1;
            st.completed.insert(entry.id, true);
        }
        simkit::trace("sup.answer", entry.id as u64, entry.outcome as u64);
        match entry.outcome {
            Scripted::Ok => Ok(LocateSymbolsResult {
                symbols: SymbolFile::from_bytes(sym_text(entry.id).as_bytes())
                    .expect("harness symbol text parses"),
                extra_debug_info: None,
            }),
            Scripted::NotFound => Err(SymbolError::NotFound),
            Scripted::ParseError => Err(SymbolError::ParseError("scripted", 1)),
            Scripted::LoadError => Err(SymbolError::LoadError(std::io::Error::other("scripted"))),
        }
    }

    async fn locate_file(
        &self,
        _module: &(dyn Module + Sync),
        _file_kind: FileKind,
    ) -> Result<PathBuf, FileError> {
        Err(FileError::NotFound)
    }
}

struct Walker {
    instruction: u64,
    cfa: Option<u64>,
    ra: Option<u64>,
}

const CALLEE_ESP: u64 = 0x10000;

impl FrameWalker for Walker {
    fn get_instruction(&self) -> u64 {
        self.instruction
    }
    fn has_grand_callee(&self) -> bool {
        false
    }
    fn get_grand_callee_parameter_size(&self) -> u32 {
        0
    }
    fn get_register_at_address(&self, address: u64) -> Option<u64> {
        Some(address ^ 0x5555)
    }
    fn get_callee_register(&self, name: &str) -> Option<u64> {
        if name == "esp" || name == "$esp" {
            Some(CALLEE_ESP)
        } else {
            None
        }
    }
    fn set_caller_register(&mut self, _name: &str, _val: u64) -> Option<()> {
        Some(())
    }
    fn clear_caller_register(&mut self, _name: &str) {}
    fn set_cfa(&mut self, val: u64) -> Option<()> {
        self.cfa = Some(val);
        Some(())
    }
    fn set_ra(&mut self, val: u64) -> Option<()> {
        self.ra = Some(val);
        Some(())
    }
}

#[derive(Clone, Copy, Debug, PartialEq, Eq)]
enum Kind {
    Fill,
    Walk,
    AtAddr,
}

#[derive(Clone, Debug)]
struct Lookup {
    kind: Kind,
    key: usize, // index into `modules`
}

#[derive(Clone, Debug, PartialEq, Eq)]
enum Observed {
    /// symbols present, function name seen / cfa computed
    Hit(String),
    /// "no symbols for this module"
    Miss,
}

#[derive(Clone, Debug)]
struct HistEv {
    seq: u64,
    task: usize,
    entry: usize,
    ret: Option<Observed>,
}

struct Shared {
    hist: Vec<HistEv>,
}

fn variants() -> Vec<SimpleModule> {
    let id_a = DebugId::from_str("5A9832E5287241C1838ED98914E9B7FF1").unwrap();
    let id_b = DebugId::from_str("5A9832E5287241C1838ED98914E9B7FF2").unwrap();
    let m = |cf: &str, ci: &str, df: &str, di: DebugId| SimpleModule {
        code_file: Some(cf.to_string()),
        code_identifier: Some(CodeId::new(ci.to_string())),
        debug_file: Some(df.to_string()),
        debug_id: Some(di),
        ..SimpleModule::default()
    };
    vec![
        m("C:\\bin\\mod.dll", "5EEDC0DE1000", "mod.pdb", id_a),
        // same leaf name, different directory: differs in code_file only
        m("D:\\other\\mod.dll", "5EEDC0DE1000", "mod.pdb", id_a),
        // differs in code_id only
        m("C:\\bin\\mod.dll", "5EEDC0DE2000", "mod.pdb", id_a),
        // differs in debug_file only
        m("C:\\bin\\mod.dll", "5EEDC0DE1000", "mod2.pdb", id_a),
        // differs in debug_id only
        m("C:\\bin\\mod.dll", "5EEDC0DE1000", "mod.pdb", id_b),
    ]
}

fn draw_scripted() -> Scripted {
    [Scripted::Ok, Scripted::NotFound, Scripted::ParseError, Scripted::LoadError][ch("e2.outcome", 4) as usize]
}

pub fn run() -> Outcome {
    let scenario = ch("e2.scenario", 9);
    match scenario {
        8 => crate::e4_pipeline::run_c12_pipeline(),
        7 => crate::e3_httpcache::run_c12_files(),
        _ => run_scripted(scenario),
    }
}

fn run_scripted(scenario: u32) -> Outcome {
    // composition: 0,1,2,3 independent tasks; 4,5 join_all; 6 join_all of > 30
    let composition = match scenario {
        0..=3 => 0,
        4 | 5 => 1,
        _ => 2,
    };
    let cfg = draw_exec_config(200_000);
    let nkeys = 1 + ch("e2.nkeys", 3) as usize;
    let mut pool = variants();
    let mut modules: Vec<SimpleModule> = Vec::new();
    for _ in 0..nkeys {
        let i = ch("e2.variant", pool.len() as u32) as usize;
        modules.push(pool.remove(i));
    }
    // script: entry per distinct module key, plus tuple siblings (what get_symbol_at_address builds)
    let mut script: BTreeMap<MKey, Entry> = BTreeMap::new();
    let mut entry_of_module: Vec<usize> = Vec::new();
    let mut entry_of_tuple: Vec<usize> = Vec::new();
    let mut entries: Vec<Entry> = Vec::new();
    for m in &modules {
        let k = mkey(m);
        let id = entries.len();
        let e = Entry {
            id,
            outcome: draw_scripted(),
            gates: ch("e2.gates", 4),
        };
        entries.push(e.clone());
        script.insert(k, e);
        entry_of_module.push(id);
    }
    for m in &modules {
        let t = (m.debug_file.as_deref().unwrap(), m.debug_id.unwrap());
        let k = mkey(&t);
        if let Some(e) = script.get(&k) {
            entry_of_tuple.push(e.id);
        } else {
            let id = entries.len();
            let e = Entry {
                id,
                outcome: draw_scripted(),
                gates: ch("e2.gates", 4),
            };
            entries.push(e.clone());
            script.insert(k, e);
            entry_of_tuple.push(id);
        }
    }

    let (ntasks, max_lookups) = if composition == 2 {
        (31 + ch("e2.ntasks_large", 6) as usize, 1)
    } else {
        (2 + ch("e2.ntasks", 3) as usize, 3)
    };
    let mut plans: Vec<Vec<Lookup>> = Vec::new();
    for _ in 0..ntasks {
        let n = 1 + ch("e2.nlookups", max_lookups) as usize;
        let mut v = Vec::new();
        for _ in 0..n {
            let kind = [Kind::Fill, Kind::Walk, Kind::AtAddr][ch("e2.kind", 3) as usize];
            let key = ch("e2.key", nkeys as u32) as usize;
            v.push(Lookup { kind, key });
        }
        plans.push(v);
    }
    let entry_for = |l: &Lookup| -> usize {
        match l.kind {
            Kind::AtAddr => entry_of_tuple[l.key],
            _ => entry_of_module[l.key],
        }
    };
    let total_lookups: usize = plans.iter().map(|p| p.len()).sum();
    let mut requested_entries: Vec<usize> = plans.iter().flatten().map(|l| entry_for(l)).collect();
    requested_entries.sort();
    requested_entries.dedup();

    let sup_state = Arc::new(Mutex::new(SupState::default()));
    let seq = Arc::new(Mutex::new(0u64));
    let supplier = ScriptedSupplier {
        script,
        state: sup_state.clone(),
        seq: seq.clone(),
    };
    let symbolizer = Rc::new(Symbolizer::new(supplier));
    let modules = Rc::new(modules);
    let shared = Rc::new(RefCell::new(Shared { hist: Vec::new() }));

    let make_task = |tid: usize, plan: Vec<Lookup>| {
        let sym = symbolizer.clone();
        let mods = modules.clone();
        let sh = shared.clone();
        let seq = seq.clone();
        let entry_ids: Vec<usize> = plan.iter().map(|l| entry_for(l)).collect();
        async move {
            for (li, l) in plan.iter().enumerate() {
                let entry = entry_ids[li];
                let s = {
                    let mut q = seq.lock().unwrap();
                    *q += 1;
                    *q
                };
                sh.borrow_mut().hist.push(HistEv {
                    seq: s,
                    task: tid,
                    entry,
                    ret: None,
                });
                let m = &mods[l.key];
                let obs = match l.kind {
                    Kind::Fill => {
                        let mut f = SimpleFrame::with_instruction(0x1010);
                        match sym.fill_symbol(m, &mut f).await {
                            Ok(()) => Observed::Hit(f.function.unwrap_or_default()),
                            Err(_) => Observed::Miss,
                        }
                    }
                    Kind::Walk => {
                        let mut w = Walker {
                            instruction: 0x1010,
                            cfa: None,
                            ra: None,
                        };
                        match sym.walk_frame(m, &mut w).await {
                            Some(()) => Observed::Hit(format!("cfa={:#x}", w.cfa.unwrap_or(0))),
                            None => Observed::Miss,
                        }
                    }
                    Kind::AtAddr => {
                        match sym
                            .get_symbol_at_address(m.debug_file.as_deref().unwrap(), m.debug_id.unwrap(), 0x1010)
                            .await
                        {
                            Some(name) => Observed::Hit(name),
                            None => Observed::Miss,
                        }
                    }
                };
                let s = {
                    let mut q = seq.lock().unwrap();
                    *q += 1;
                    *q
                };
                sh.borrow_mut().hist.push(HistEv {
                    seq: s,
                    task: tid,
                    entry,
                    ret: Some(obs),
                });
            }
        }
    };

    let mut ex = Exec::new(cfg.clone());
    match composition {
        0 => {
            for (tid, plan) in plans.iter().cloned().enumerate() {
                ex.spawn(format!("task{tid}"), make_task(tid, plan));
            }
        }
        _ => {
            probe("e2.joinall");
            if composition == 2 {
                probe("e2.joinall_large");
            }
            let futs: Vec<_> = plans
                .iter()
                .cloned()
                .enumerate()
                .map(|(tid, plan)| make_task(tid, plan))
                .collect();
            ex.spawn("join_all", async move {
                futures_util::future::join_all(futs).await;
            });
        }
    }

    // run, with the in-run invariants
    let mut polls_since_last_event = 0u64;
    let bound = 16 * total_lookups as u64 + 4 * ntasks as u64 + 64;
    let st2 = sup_state.clone();
    let stop = ex.run(|ex, kind| {
        if let Some(v) = st2.lock().unwrap().violation.clone() {
            return Err(v);
        }
        match kind {
            simkit::StepKind::Event { .. } => polls_since_last_event = 0,
            simkit::StepKind::Poll { spurious, .. } => {
                if !*spurious {
                    polls_since_last_event += 1;
                }
            }
        }
        if simkit::ctx::pending_events() == 0 && polls_since_last_event > bound {
            return Err(Violation::new(
                "c12.no_progress",
                format!("more than {} non-spurious polls after the last supplier answer without finishing (steps {})", "16*lookups+4*tasks+64", ex.steps),
            ));
        }
        Ok(())
    });
    let scenario_name = ["independent tasks", "join_all", "join_all > 30"][composition];
    let world = json!({
        "scenario": scenario_name,
        "keys": nkeys,
        "entries": entries.iter().map(|e| json!({"id": e.id, "outcome": format!("{:?}", e.outcome), "gates": e.gates})).collect::<Vec<_>>(),
        "tasks": ntasks,
        "lookups": plans.iter().map(|p| p.iter().map(|l| format!("{:?}(k{})", l.kind, l.key)).collect::<Vec<_>>()).collect::<Vec<_>>(),
        "exec": exec_config_json(&cfg),
    });
    let world_hash = crate::common::fnv(world.to_string().as_bytes());
    let digest = simkit::with_ctx(|c| c.digest);
    let key = simkit::rng::mix(&[world_hash, digest]);

    let result = (|| -> simkit::Check {
        let stop = stop?;
        match stop {
            Stop::AllDone => {}
            Stop::Deadlock(t) => {
                return Err(Violation::new(
                    "c12.deadlock",
                    format!("{} task(s) unfinished, nothing runnable, no pending event (lost wake-up or deadlock)", t.len()),
                ))
            }
            Stop::Budget => return Err(Violation::new("c12.livelock", "step budget exhausted")),
        }
        let st = sup_state.lock().unwrap();
        if let Some(v) = st.violation.clone() {
            return Err(v);
        }
        simkit::ensure!(st.unknown_key_calls == 0, "c12.unknown_key", "the supplier was asked for a module nobody requested ({} calls)", st.unknown_key_calls);
        // every requester observed the scripted outcome of its own key
        let sh = shared.borrow();
        for ev in sh.hist.iter().filter(|e| e.ret.is_some()) {
            let e = &entries[ev.entry];
            let got = ev.ret.as_ref().unwrap();
            let ok = match (e.outcome, got) {
                (Scripted::Ok, Observed::Hit(s)) => s == &format!("fn_e{}", e.id) || s == &format!("cfa={:#x}", CALLEE_ESP + 8 + 4 * e.id as u64),
                (Scripted::Ok, Observed::Miss) => false,
                (_, Observed::Miss) => true,
                (_, Observed::Hit(_)) => false,
            };
            simkit::ensure!(ok, "c12.wrong_outcome", "a requester of a module scripted {:?} observed {}", e.outcome, match got { Observed::Hit(s) => if s.starts_with("fn_e") || s.starts_with("cfa=") { "the symbols of a different module or a hit" } else { "an unexpected hit" }, Observed::Miss => "a miss" });
        }
        let returns = sh.hist.iter().filter(|e| e.ret.is_some()).count();
        simkit::ensure!(returns == total_lookups, "c12.lost_request", "{} of {} lookups returned", returns, total_lookups);
        // supplier asked exactly once per requested entry
        for e in &requested_entries {
            let n = st.calls_total.get(e).copied().unwrap_or(0);
            simkit::ensure!(n == 1, "c12.supplier_call_count", "the supplier was asked {} times for one requested module", n);
        }
        let ps = symbolizer.pending_stats();
        simkit::ensure!(
            ps.symbols_requested == requested_entries.len() as u64 && ps.symbols_processed == requested_entries.len() as u64,
            "c12.pending_stats",
            "pending counters do not end at requested = processed = number of distinct modules (requested-distinct = {}, processed-distinct = {})",
            ps.symbols_requested as i64 - requested_entries.len() as i64,
            ps.symbols_processed as i64 - requested_entries.len() as i64
        );
        Ok(())
    })();

    // non-triviality: overlap of two lookups of the same entry + a context switch
    let sh = shared.borrow();
    let mut overlapped = false;
    let mut reused_failure = false;
    {
        let mut open: BTreeMap<usize, u32> = BTreeMap::new();
        let mut answered: BTreeMap<usize, bool> = BTreeMap::new();
        let calls: Vec<(u64, usize)> = sup_state.lock().unwrap().call_log.clone();
        let mut evs: Vec<(u64, i32, usize)> = Vec::new(); // seq, kind(0 invoke,1 return,2 supplier call), entry
        for e in &sh.hist {
            evs.push((e.seq, if e.ret.is_some() { 1 } else { 0 }, e.entry));
        }
        for (s, e) in calls {
            evs.push((s, 2, e));
        }
        evs.sort();
        for (_, k, e) in evs {
            match k {
                0 => {
                    let n = open.entry(e).or_insert(0);
                    if *n > 0 {
                        overlapped = true;
                    }
                    *n += 1;
                    if answered.get(&e).copied().unwrap_or(false) && entries[e].outcome != Scripted::Ok {
                        reused_failure = true;
                    }
                }
                1 => {
                    *open.get_mut(&e).unwrap() -= 1;
                    answered.insert(e, true);
                }
                _ => {}
            }
        }
    }
    if overlapped {
        probe("e2.concurrent_same_key");
        probe("e2.contended_lock");
    }
    if reused_failure {
        probe("e2.remembered_failure_reused");
    }
    let switched = ex.switches > 0 || composition != 0;
    let _ = chance; // (kept for future knobs)
    Outcome {
        result,
        nontrivial: overlapped && switched,
        key,
        info: json!({"world": world, "steps": ex.steps, "polls": ex.polls, "spurious_polls": ex.spurious_polls, "events": ex.events, "context_switches": ex.switches, "overlapping_same_key_lookups": overlapped}),
    }
}
