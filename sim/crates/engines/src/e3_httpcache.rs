//! E3 `httpcache` — C16: the on-disk symbol cache only ever holds complete, parseable files.
//!
//! Real `HttpSymbolSupplier` (fetch_symbol_file, fetch_lookup, create/commit_cache_file, code-id
//! redirect lookup, local-before-network cascade) and real `parse_async`, over the simulated
//! transport (reqwest-sim), the simulated temp-file layer (tempfile-sim) and the real kernel
//! file system in a private scratch tree.  1–3 supplier instances share `cache/` and `tmp/`
//! (instances stand for processes); lookups are executor tasks that may be dropped at any poll
//! boundary.  The file-system invariant is evaluated at every temp-file seam event and after
//! every executor step.

use crate::common::{draw_delay, draw_exec_config, exec_config_json, list_tree, Scratch};
use crate::symgen::{self, SymOpts};
use breakpad_symbols::{
    breakpad_sym_lookup, FileKind, HttpSymbolSupplier, Module, SimpleModule, SymbolError, SymbolFile,
    SymbolSupplier,
};
use debugid::{CodeId, DebugId};
use reqwest::sim::{BodyEnd, Plan, RequestInfo};
use serde_json::json;
use simkit::{ch, chance, probe, range, Exec, Outcome, Stop, Violation};
use std::cell::RefCell;
use std::collections::{BTreeMap, BTreeSet};
use std::path::{Path, PathBuf};
use std::rc::Rc;
use std::str::FromStr;
use std::time::Duration;
use tempfile::sim as tsim;

pub const RULE: &str = "Each run draws from one tape: 1-2 modules with benign names (spaces, dots, unicode, Windows/POSIX directories before the leaf; optionally without debug info so that the code-id redirect lookup runs), 1-3 supplier instances sharing cache/ and tmp/, 1-2 server URLs, bodies of 6-40 records, optionally with bulk filler, a line of 11-35 KiB (parse buffer growth) or a last-but-one / last line of 170-260 KiB (above the parser's 160 KiB cap: discarded), first hops now and then answered with a 301/302/307 to the object's /cdn/ twin (absolute or relative Location), a per-request server behaviour (200 with a body in tape-chosen chunks and delays | 404 | 5xx/403, each without a body, with an HTML page or with a body that is a perfectly good file | connect error | body reset after k bytes | clean EOF after k bytes | corrupt body | body without final newline | stall until the client's timeout fires), per task an optional cancellation after c polls with optional retry, a pre-existing cache entry (none | good | corrupt | a directory at the entry path), tmp/ missing, cache parent blocked by a file, temp-file faults (ENOSPC/EIO on create, short write, EINTR, torn write + ENOSPC, persist failure) and a rival process committing the same entry at the persist seam or mid-download; binary / debug-file lookups that miss fall through to Mozilla's CAB variant of the URL (feature mozilla_cab_symbols is compiled in), answered with a generated cabinet archive (stored | MSZIP; the wanted member alone, behind a directory prefix, among others, twice, or missing) under the same server behaviours. The invariant (every regular file under cache/ is a permitted complete entry — from a 2xx response only —, an entry once there is only ever taken away by the persist step of a commit replacing it, tmp/ holds only live temp files) is evaluated at every temp-file call and after every executor step; at the end every new entry is reloaded through a fresh supplier with no network. NON-TRIVIAL iff at least one download delivered at least one body chunk and at least one fault, cut, cancellation, rival action or second instance occurred. DISTINCT = distinct (world, decision trace) digests among non-trivial runs.";

const DEBUG_IDS: [&str; 2] = ["5A9832E5287241C1838ED98914E9B7FF1", "0123456789ABCDEF0123456789ABCDEF2"];

#[derive(Clone)]
struct ModSpec {
    /// As seen in the dump (may lack debug info).
    module: Rc<SimpleModule>,
    /// With debug info resolved (what the supplier looks up after a code-id redirect).
    resolved: Rc<SimpleModule>,
    needs_code_lookup: bool,
    /// Cache-relative path of the .sym entry.
    rel: String,
    /// The complete, valid symbol file the server has for it.
    body: Rc<Vec<u8>>,
}

fn benign_leaf(i: u32) -> &'static str {
    ["mod.pdb", "lib foo.so", "a.b.c.pdb", "\u{fc}n\u{ef}.pdb", "xul.PDB", "libc++.so.1", "plain"][i as usize % 7]
}

fn dir_prefix(i: u32) -> &'static str {
    ["", "C:\\build\\out\\", "/usr/lib/", "c:/mixed\\sep/", "..\\rel\\"][i as usize % 5]
}

fn draw_module(idx: usize) -> ModSpec {
    let leaf = benign_leaf(ch("e3.mod.leaf", 7));
    let debug_file = format!("{}{}", dir_prefix(ch("e3.mod.dir", 5)), leaf);
    let debug_id = DebugId::from_str(DEBUG_IDS[idx % 2]).unwrap();
    let code_file = format!("{}{}", dir_prefix(ch("e3.mod.cdir", 5)), ["app.exe", "mod.dll", "lib foo.so"][ch("e3.mod.code", 3) as usize]);
    let code_id = CodeId::new(format!("5EEDC0DE{}000", idx + 1));
    let resolved = SimpleModule {
        code_file: Some(code_file.clone()),
        code_identifier: Some(code_id.clone()),
        debug_file: Some(debug_file.clone()),
        debug_id: Some(debug_id),
        ..SimpleModule::default()
    };
    let needs_code_lookup = chance("e3.mod.nodebug", 1, 8);
    let module = if needs_code_lookup {
        SimpleModule {
            code_file: Some(code_file),
            code_identifier: Some(code_id),
            ..SimpleModule::default()
        }
    } else {
        SimpleModule {
            code_file: resolved.code_file.clone(),
            code_identifier: resolved.code_identifier.clone(),
            debug_file: resolved.debug_file.clone(),
            debug_id: resolved.debug_id,
            ..SimpleModule::default()
        }
    };
    let rel = breakpad_sym_lookup(&resolved).unwrap().cache_rel;
    // a valid body
    let mut opts = SymOpts::default();
    opts.fatal_lines = false;
    opts.extremes = false;
    opts.max_records = [6, 20, 40][ch("e3.body.size", 3) as usize];
    let mut doc = symgen::gen_doc(&opts);
    if doc.lines.first().map(|l| !l.starts_with(b"MODULE ")).unwrap_or(true) {
        doc.lines.insert(0, b"MODULE Linux x86 000000000000000000000000000000000 x".to_vec());
    }
    doc.lines[0] = format!("MODULE Linux x86 {} {}", debug_id.breakpad(), leaf).into_bytes();
    if chance("e3.body.bulk", 1, 6) {
        // cross the 10 KiB parse buffer so that the tee callback writes several times
        let seed = ch("e3.body.bulk.seed", 1000) as u64;
        let n = range("e3.body.bulk.n", 100, 900);
        for i in 0..n {
            doc.lines.push(format!("PUBLIC {:x} 0 filler_{}_{}", 0x200000 + i * 16, seed, i).into_bytes());
        }
    }
    // lines that make the parse buffer grow (10 -> 20 -> 40 KiB) and, more rarely, a line above
    // the 160 KiB cap that the parser discards: the cached copy must still be the exact bytes
    if chance("e3.body.long_line", 1, 10) {
        probe("e3.body_long_line");
        let n = range("e3.body.long_line.len", 11_000, 35_000) as usize;
        // right after MODULE or at the end: never between a FUNC and its line records
        let at = if chance("e3.body.long_line.first", 1, 2) { 1 } else { doc.lines.len() };
        let mut l = b"PUBLIC 300000 0 ".to_vec();
        l.extend(std::iter::repeat(b'L').take(n));
        doc.lines.insert(at, l);
    }
    if chance("e3.body.overlong_line", 1, 16) {
        probe("e3.body_overlong_line");
        let n = range("e3.body.overlong_line.len", 170_000, 260_000) as usize;
        let mut l = b"PUBLIC 310000 0 ".to_vec();
        l.extend(std::iter::repeat(b'X').take(n));
        // at the end of the file, so that it never separates a FUNC from its line records
        doc.lines.push(l);
        if chance("e3.body.overlong_line.followed", 1, 2) {
            doc.lines.push(b"PUBLIC 320000 0 after_the_long_one".to_vec());
        }
    }
    let (body, _) = symgen::render(&doc, symgen::draw_eol(), true);
    ModSpec {
        module: Rc::new(module),
        resolved: Rc::new(resolved),
        needs_code_lookup,
        rel,
        body: Rc::new(body),
    }
}

#[derive(Clone, Debug, PartialEq)]
enum Pre {
    None,
    Good,
    Corrupt,
    Directory,
}

#[derive(Clone, Copy, Debug, PartialEq)]
enum OpKind {
    Symbols,
    File(FileKind),
}

#[derive(Clone, Debug)]
struct Op {
    inst: usize,
    module: usize,
    kind: OpKind,
    cancel_after: Option<u64>,
    retry: bool,
}

#[derive(Debug)]
enum OpResult {
    Symbols(Result<SymbolFile, SymbolError>),
    File(Result<PathBuf, ()>),
}

struct Model {
    cache: PathBuf,
    tmp: PathBuf,
    mods: Vec<ModSpec>,
    /// rel -> contents that were there before the run (or created by the rival process)
    foreign: BTreeMap<String, Vec<Vec<u8>>>,
    /// request id -> memoised "delivered bytes parse"
    parses: BTreeMap<usize, bool>,
    live_temps: Vec<PathBuf>,
    violation: Option<Violation>,
    fs_checks: u64,
    /// rel paths of binary / debug-file entries (fetch_lookup): url path -> rel
    file_rels: BTreeMap<String, String>,
    sym_urls: BTreeMap<String, usize>, // url-without-query -> module index
    /// Mozilla's CAB variant of a file URL (last character replaced by '_') -> rel
    cab_rels: BTreeMap<String, String>,
    rival_pending: Option<(String, Vec<u8>)>,
    /// rel paths that were seen holding a permitted entry at some check point
    established: BTreeSet<String>,
    /// Second phase of a run: the servers still answer the code-file / code-id lookup but fail
    /// every object request (a later lookup must then be served from the cache).
    degraded: bool,
    /// rel paths whose commit failed at the persist step (injected I/O error or a link error):
    /// the entry that the commit had removed to make room may then be gone
    persist_failed: BTreeSet<String>,
}

/// The source-URL note as it follows `delivered` in a cache entry.  The note is a line: when the
/// downloaded bytes do not end with a newline (the parser accepts that for an over-long last line
/// only), the line they end in is terminated first — without that the note is swallowed by that
/// line and a reload loses the URL (§9.1, repaired in /repo).
fn note_for(delivered: &[u8], url: &str) -> String {
    if delivered.is_empty() || delivered.last() == Some(&b'\n') {
        format!("INFO URL {url}\n")
    } else {
        format!("\nINFO URL {url}\n")
    }
}

fn url_without_query(u: &str) -> String {
    u.split('?').next().unwrap_or(u).to_string()
}

impl Model {
    fn permitted(&mut self, rel: &str, content: &[u8]) -> Result<(), &'static str> {
        if let Some(v) = self.foreign.get(rel) {
            if v.iter().any(|c| c == content) {
                return Ok(());
            }
        }
        let snaps = reqwest::sim::snapshots();
        // a .sym entry: delivered ++ trailer of a clean, parseable download of this rel
        let mut any_for_rel = false;
        let mut from_error_response = false;
        let mut unparseable_match = false;
        for s in &snaps {
            let base = url_without_query(&s.info.url);
            if let Some(&mi) = self.sym_urls.get(&base) {
                if self.mods[mi].rel != rel {
                    continue;
                }
                any_for_rel = true;
                if !s.saw_eof {
                    continue;
                }
                if !matches!(s.head_code, Some(200..=299)) {
                    if !s.delivered.is_empty() && content.starts_with(&s.delivered) {
                        from_error_response = true;
                    }
                    continue;
                }
                let trailer = note_for(&s.delivered, &s.info.origin_url);
                if content.len() == s.delivered.len() + trailer.len()
                    && content.starts_with(&s.delivered)
                    && content.ends_with(trailer.as_bytes())
                {
                    let ok = *self
                        .parses
                        .entry(s.info.id)
                        .or_insert_with(|| SymbolFile::from_bytes(&s.delivered).is_ok());
                    if ok {
                        return Ok(());
                    }
                    // keep looking: another complete download may explain the same bytes (an
                    // unterminated body plus the separating newline equals the terminated one)
                    unparseable_match = true;
                }
            } else if let (Some(r), false) = (self.cab_rels.get(&base), self.file_rels.contains_key(&base)) {
                if r != rel {
                    continue;
                }
                any_for_rel = true;
                if !s.saw_eof {
                    continue;
                }
                let leaf = rel.rsplit('/').next().unwrap_or(rel);
                if unpack_cab_reference(&s.delivered, leaf).iter().any(|c| c == content) {
                    if matches!(s.head_code, Some(200..=299)) {
                        probe("e3.cab_entry_permitted");
                        return Ok(());
                    }
                    from_error_response = true;
                }
            } else if let Some(r) = self.file_rels.get(&base) {
                if r != rel {
                    continue;
                }
                any_for_rel = true;
                if !matches!(s.head_code, Some(200..=299)) {
                    if s.saw_eof && content == &s.delivered[..] {
                        from_error_response = true;
                    }
                    continue;
                }
                if s.saw_eof && content == &s.delivered[..] {
                    return Ok(());
                }
            }
        }
        if !any_for_rel {
            return Err("a file appeared at a cache path nobody downloaded");
        }
        if unparseable_match {
            return Err("the entry holds a download whose content does not parse");
        }
        if from_error_response {
            return Err("the entry holds the body of an HTTP error response");
        }
        // classify for a stable signature
        for s in &snaps {
            if !s.delivered.is_empty() && content.len() <= s.delivered.len() && s.delivered.starts_with(content) && !s.saw_eof {
                return Err("the entry holds a partial download (body not finished)");
            }
            if !s.delivered.is_empty() && content == &s.delivered[..] {
                return Err("the entry holds the downloaded bytes without the source-URL note");
            }
            if content.starts_with(&s.delivered) && !s.delivered.is_empty() && !s.saw_eof {
                return Err("the entry was committed before the download finished");
            }
        }
        if content.starts_with(b"INFO URL") {
            return Err("the entry starts with the source-URL note");
        }
        Err("the entry's content is neither a complete download plus note nor a pre-existing file")
    }

    /// `commit_window`: the final path of a commit whose persist step is running right now
    /// (the unchanged code removes an existing entry immediately before it links the complete
    /// temp file into place; between those two calls the path is legitimately empty).
    fn check_fs(&mut self, commit_window: Option<&Path>) -> simkit::Check {
        self.fs_checks += 1;
        let (files, _dirs) = list_tree(&self.cache.clone());
        let mut present: BTreeSet<String> = BTreeSet::new();
        for (rel, content) in files {
            if rel.contains(".simtmp-") {
                return Err(Violation::new("c16.temp_in_cache", "a temporary file is visible inside the cache directory"));
            }
            if let Err(why) = self.permitted(&rel, &content) {
                return Err(Violation::new("c16.bad_cache_entry", why));
            }
            present.insert(rel);
        }
        // An entry, once there, is only ever taken away by a commit that puts a complete
        // download in its place: outside the persist step of such a commit (and unless that
        // step failed on an I/O error) every established entry is still there.
        for rel in &self.established {
            if present.contains(rel) || self.persist_failed.contains(rel) {
                continue;
            }
            if let Some(w) = commit_window {
                if w == self.cache.join(rel) {
                    continue;
                }
            }
            probe("e3.entry_vanished");
            return Err(Violation::new("c16.entry_vanished", "a cache entry was removed although no complete download was being committed in its place (a later lookup without network no longer finds what an earlier download or process had cached)"));
        }
        self.established.extend(present);
        if self.tmp.is_dir() {
            let (tfiles, _) = list_tree(&self.tmp.clone());
            for (rel, _) in &tfiles {
                let p = self.tmp.join(rel);
                if !self.live_temps.contains(&p) {
                    return Err(Violation::new("c16.stray_temp", "a temporary file outlived its download"));
                }
            }
            let in_flight = reqwest::sim::snapshots().iter().filter(|s| s.head_taken && !s.dropped).count();
            if tfiles.len() > in_flight.max(self.live_temps.len()) {
                return Err(Violation::new("c16.too_many_temps", "more temporary files than downloads in flight"));
            }
        }
        Ok(())
    }
}

struct World {
    scratch: Scratch,
    mods: Vec<ModSpec>,
    urls: Vec<String>,
    suppliers: Vec<Rc<HttpSymbolSupplier>>,
    ops: Vec<Op>,
    pre: Pre,
    tmp_missing: bool,
    cache_blocked: bool,
    timeout_s: u64,
    /// a symbol file for module 0 in the local symbol path: None | good | corrupt
    local_file: Option<(bool, Vec<u8>)>,
}

fn good_entry(m: &ModSpec) -> Vec<u8> {
    let mut v = (*m.body).clone();
    v.extend_from_slice(b"INFO URL http://earlier.example/run\n");
    v
}

/// A cabinet archive for `leaf`: the wanted file alone, behind a directory prefix, next to other
/// files, twice (the first match is what the client unpacks), missing, or empty; stored or MSZIP.
fn build_cab(leaf: &str) -> Vec<u8> {
    use std::io::Write;
    let blob = simkit::blob("e3.cab.blob", range("e3.cab.len", 0, 3000) as usize);
    let other = simkit::blob("e3.cab.other", range("e3.cab.other_len", 0, 500) as usize);
    let ctype = if chance("e3.cab.mszip", 1, 2) { cab::CompressionType::MsZip } else { cab::CompressionType::None };
    let shape = ch("e3.cab.shape", 6);
    let names: Vec<(String, &[u8])> = match shape {
        0 => vec![(leaf.to_string(), &blob)],
        1 => vec![(format!("dir\\{leaf}"), &blob)],
        2 => vec![("readme.txt".to_string(), &other), (leaf.to_string(), &blob)],
        3 => vec![(format!("a\\{leaf}"), &blob), (leaf.to_string(), &other)],
        4 => vec![("unrelated.bin".to_string(), &other)],
        _ => vec![],
    };
    if shape == 4 || shape == 5 {
        probe("e3.cab_without_file");
    }
    let mut b = cab::CabinetBuilder::new();
    if !names.is_empty() {
        let f = b.add_folder(ctype);
        for (n, _) in &names {
            f.add_file(n.clone());
        }
    }
    let mut w = match b.build(std::io::Cursor::new(Vec::new())) {
        Ok(w) => w,
        Err(_) => return b"MSCF not really".to_vec(),
    };
    let mut i = 0;
    while let Ok(Some(mut fw)) = w.next_file() {
        let _ = fw.write_all(names[i].1);
        i += 1;
    }
    match w.finish() {
        Ok(c) => c.into_inner(),
        Err(_) => b"MSCF not really".to_vec(),
    }
}

/// What a complete archive holds for `leaf`: the content of every member whose name ends with
/// the leaf (the client takes the first; which one it takes is not C16's business, that the
/// entry is one of them, whole, is).
fn unpack_cab_reference(archive: &[u8], leaf: &str) -> Vec<Vec<u8>> {
    use std::io::Read;
    let Ok(mut cab) = cab::Cabinet::new(std::io::Cursor::new(archive)) else { return vec![] };
    let mut names = Vec::new();
    for folder in cab.folder_entries() {
        for file in folder.file_entries() {
            if file.name().ends_with(leaf) {
                names.push(file.name().to_string());
            }
        }
    }
    let mut out = Vec::new();
    for n in names {
        let mut v = Vec::new();
        if let Ok(mut r) = cab.read_file(&n) {
            if r.read_to_end(&mut v).is_ok() {
                out.push(v);
            }
        }
    }
    out
}

/// An HTTP error response: without a body, with an HTML page, or — the worst case for a client
/// that does not look at the status — with a body that is a perfectly good file.
fn error_plan(code: u16, good_body: &[u8]) -> Plan {
    let mut p = Plan::status(code);
    match ch("e3.srv.err_body", 3) {
        0 => {}
        1 => {
            probe("e3.error_with_good_body");
            p.body = good_body.to_vec();
        }
        _ => p.body = format!("<html><body><h1>{code}</h1>\n<p>no such object</p></body></html>\n").into_bytes(),
    }
    p
}

fn draw_plan_for(body: &[u8], allow_stall: bool) -> (Plan, &'static str) {
    let kind = ch("e3.srv.kind", 13);
    let mut label = "200 full";
    let mut plan = match kind {
        0..=4 => Plan::ok(body.to_vec()),
        12 => {
            // a success status with nothing in it (200 / 204 with a zero-length body)
            label = "empty 2xx";
            simkit::probe("e3.empty_success_body");
            Plan::status([200u16, 204][ch("e3.srv.empty_code", 2) as usize])
        }
        5 => {
            label = "404";
            error_plan(404, body)
        }
        6 => {
            label = "500";
            error_plan([500u16, 503, 403][ch("e3.srv.5xx", 3) as usize], body)
        }
        7 => {
            label = "connect error";
            Plan::connect_error()
        }
        8 => {
            label = "reset";
            let k = range("e3.srv.reset_at", 0, body.len() as u64) as usize;
            let mut p = Plan::ok(body[..k].to_vec());
            p.end = BodyEnd::Reset;
            p
        }
        9 => {
            label = "clean cut";
            let k = range("e3.srv.cut_at", 0, body.len() as u64) as usize;
            Plan::ok(body[..k].to_vec())
        }
        10 => {
            // corrupt content: damage one line, or drop the final newline
            label = "corrupt body";
            let mut b = body.to_vec();
            if chance("e3.srv.no_final_newline", 1, 3) {
                label = "unterminated body";
                while b.last() == Some(&b'\n') || b.last() == Some(&b'\r') {
                    b.pop();
                }
            } else {
                let nl: Vec<usize> = b.iter().enumerate().filter(|(_, &c)| c == b'\n').map(|(i, _)| i).collect();
                let at = if nl.is_empty() { 0 } else { nl[ch("e3.srv.corrupt_line", nl.len() as u32) as usize] + 1 };
                let junk = b"this line is not a record\n";
                b.splice(at..at, junk.iter().copied());
            }
            Plan::ok(b)
        }
        _ => {
            if allow_stall {
                label = "stall";
                let k = range("e3.srv.stall_at", 0, body.len() as u64) as usize;
                let mut p = Plan::ok(body[..k].to_vec());
                p.end = BodyEnd::Stall;
                p
            } else {
                label = "503";
                error_plan(503, body)
            }
        }
    };
    plan.head_delay = draw_delay("e3.srv.head_delay");
    // chunking
    let mut sizes = Vec::new();
    let mut left = plan.body.len();
    let style = ch("e3.srv.chunking", 4);
    while left > 0 && sizes.len() < 64 {
        let s = match style {
            0 => left,
            1 => 1 + ch("e3.srv.chunk.small", 64) as usize,
            2 => 1usize << ch("e3.srv.chunk.geo", 15),
            _ => range("e3.srv.chunk.any", 1, left as u64) as usize,
        }
        .min(left);
        sizes.push(s);
        left -= s;
    }
    plan.chunk_delays = sizes.iter().map(|_| draw_delay("e3.srv.chunk_delay")).collect();
    plan.chunks = sizes;
    plan.end_delay = draw_delay("e3.srv.end_delay");
    (plan, label)
}

fn build_world(ntasks_max: u32, files_only: bool) -> World {
    let scratch = Scratch::new("e3");
    let nmods = 1 + ch("e3.nmods", 2) as usize;
    let mods: Vec<ModSpec> = (0..nmods).map(draw_module).collect();
    let nurls = 1 + ch("e3.nurls", 2) as usize;
    let urls: Vec<String> = (0..nurls).map(|i| format!("http://sym{}.example/base{}", i, if i == 0 { "/" } else { "" })).collect();
    let ninst = 1 + ch("e3.ninst", 3) as usize;
    let cache = scratch.root.join("cache");
    let tmp = scratch.root.join("tmp");
    let local = scratch.root.join("local");
    std::fs::create_dir_all(&cache).unwrap();
    std::fs::create_dir_all(&local).unwrap();
    let tmp_missing = chance("e3.tmp_missing", 1, 12);
    if !tmp_missing {
        std::fs::create_dir_all(&tmp).unwrap();
    } else {
        probe("e3.tmp_missing");
    }
    // pre-existing entry for module 0
    let pre = [Pre::None, Pre::None, Pre::None, Pre::Good, Pre::Corrupt, Pre::Directory][ch("e3.pre", 6) as usize].clone();
    let entry0 = cache.join(&mods[0].rel);
    let mut cache_blocked = false;
    match pre {
        Pre::None => {
            if chance("e3.cache_blocked", 1, 16) {
                // the directory that should hold the entry is a regular file
                let parent = entry0.parent().unwrap().parent().unwrap();
                std::fs::create_dir_all(parent.parent().unwrap()).unwrap();
                std::fs::write(parent, b"not a directory").unwrap();
                cache_blocked = true;
                probe("e3.cache_blocked");
            }
        }
        Pre::Good => {
            std::fs::create_dir_all(entry0.parent().unwrap()).unwrap();
            std::fs::write(&entry0, good_entry(&mods[0])).unwrap();
        }
        Pre::Corrupt => {
            std::fs::create_dir_all(entry0.parent().unwrap()).unwrap();
            std::fs::write(&entry0, b"MODULE Linux x86 000 x\nthis is garbage\n").unwrap();
        }
        Pre::Directory => {
            std::fs::create_dir_all(&entry0).unwrap();
        }
    }
    let timeout_s = [1000u64, 5, 60][ch("e3.timeout", 3) as usize];
    let use_local = chance("e3.use_local", 1, 4);
    let mut local_file = None;
    if use_local && pre == Pre::None {
        match ch("e3.local_file", 3) {
            0 => {}
            k => {
                let p = local.join(&mods[0].rel);
                std::fs::create_dir_all(p.parent().unwrap()).unwrap();
                let good = k == 1;
                let content = if good { (*mods[0].body).clone() } else { b"MODULE Linux x86 000 x\nFUNC nonsense\n".to_vec() };
                std::fs::write(&p, &content).unwrap();
                local_file = Some((good, content));
                probe(if good { "e3.local_good" } else { "e3.local_corrupt" });
            }
        }
    }
    let suppliers: Vec<Rc<HttpSymbolSupplier>> = (0..ninst)
        .map(|_| {
            Rc::new(HttpSymbolSupplier::new(
                urls.clone(),
                cache.clone(),
                tmp.clone(),
                if use_local { vec![local.clone()] } else { vec![] },
                Duration::from_secs(timeout_s),
            ))
        })
        .collect();
    let nops = 1 + ch("e3.nops", ntasks_max) as usize;
    let mut ops = Vec::new();
    for _ in 0..nops {
        let kind = if files_only || chance("e3.op.file", 1, 6) {
            OpKind::File([FileKind::Binary, FileKind::ExtraDebugInfo, FileKind::BreakpadSym][ch("e3.op.filekind", 3) as usize])
        } else {
            OpKind::Symbols
        };
        let cancel_after = if !files_only && chance("e3.op.cancel", 1, 3) { Some(1 + ch("e3.op.cancel_at", 12) as u64) } else { None };
        ops.push(Op {
            inst: ch("e3.op.inst", ninst as u32) as usize,
            module: ch("e3.op.module", nmods as u32) as usize,
            kind,
            cancel_after,
            retry: cancel_after.is_some() && chance("e3.op.retry", 1, 2),
        });
    }
    World {
        scratch,
        mods,
        urls,
        suppliers,
        ops,
        pre,
        tmp_missing,
        cache_blocked,
        timeout_s,
        local_file,
    }
}

fn install_transport(world: &World, model: &Rc<RefCell<Model>>) {
    // which URLs mean what
    {
        let mut m = model.borrow_mut();
        for (mi, ms) in world.mods.iter().enumerate() {
            for base in &world.urls {
                let mut b = base.clone();
                if !b.ends_with('/') {
                    b.push('/');
                }
                let Ok(base_url) = reqwest::Url::parse(&b) else { continue };
                // every object also lives under /cdn/ on the same host: where a redirected
                // request ends up
                let Ok(cdn_url) = base_url.join("/cdn/") else { continue };
                for bu in [&base_url, &cdn_url] {
                    if let Ok(u) = bu.join(&ms.rel) {
                        m.sym_urls.insert(u.as_str().to_string(), mi);
                    }
                    for kind in [FileKind::Binary, FileKind::ExtraDebugInfo] {
                        if let Some(l) = breakpad_symbols::lookup(&*ms.resolved, kind) {
                            if let Ok(u) = bu.join(&l.server_rel) {
                                m.file_rels.insert(u.as_str().to_string(), l.cache_rel.clone());
                            }
                            let cl = breakpad_symbols::moz_lookup(l.clone());
                            if let Ok(u) = bu.join(&cl.server_rel) {
                                m.cab_rels.insert(u.as_str().to_string(), l.cache_rel.clone());
                            }
                        }
                    }
                }
            }
        }
    }
    let mods = world.mods.clone();
    let model2 = model.clone();
    let allow_stall = true;
    reqwest::sim::install(move |info: &RequestInfo| {
        let base = url_without_query(&info.url);
        let (sym_mod, is_file, cab_rel, degraded) = {
            let m = model2.borrow();
            (m.sym_urls.get(&base).copied(), m.file_rels.contains_key(&base), m.cab_rels.get(&base).cloned(), m.degraded)
        };
        if degraded && (sym_mod.is_some() || is_file || cab_rel.is_some()) && info.follows_redirects {
            probe("e3.degraded_object_request");
            return Plan::status(500);
        }
        // a known object asked for directly by a redirect-following client: now and then the
        // server sends the client to the object's /cdn/ twin (signed-URL style)
        if (sym_mod.is_some() || is_file || cab_rel.is_some()) && info.follows_redirects && info.url == info.origin_url && chance("e3.srv.redirect", 1, 8) {
            if let Ok(u) = reqwest::Url::parse(&info.url) {
                if let Some(tail) = u.path().strip_prefix("/base/") {
                    probe("e3.object_redirect");
                    let code = [302u16, 301, 307][ch("e3.srv.redirect.code", 3) as usize];
                    let loc = if chance("e3.srv.redirect.absolute", 1, 2) {
                        format!("http://{}/cdn/{}?sig=5eed", u.host_str().unwrap_or("sym0.example"), tail)
                    } else {
                        format!("/cdn/{}?sig=5eed", tail)
                    };
                    let mut plan = Plan::redirect(code, &loc);
                    plan.head_delay = draw_delay("e3.srv.head_delay");
                    // a redirect may carry a little body of its own, which is nobody's file
                    if chance("e3.srv.redirect.body", 1, 2) {
                        plan.body = b"<html>moved</html>\n".to_vec();
                    }
                    simkit::log_line(|| format!("server: {} -> {} for {}", code, loc, info.url));
                    return plan;
                }
            }
        }
        if let Some(mi) = sym_mod {
            if !info.follows_redirects {
                // a code-id lookup that happens to equal the sym URL: answer like a plain server
                return Plan::status(404);
            }
            let (plan, label) = draw_plan_for(&mods[mi].body, allow_stall);
            match label {
                "reset" => probe("e3.cut_reset"),
                "clean cut" => probe("e3.cut_clean"),
                "stall" => probe("e3.stall"),
                "corrupt body" => probe("e3.corrupt_body"),
                "unterminated body" => probe("e3.unterminated_body"),
                _ => {}
            }
            simkit::log_line(|| format!("server: {} for {}", label, info.url));
            return plan;
        }
        if let (Some(rel), false) = (cab_rel, is_file) {
            // Mozilla's CAB-compressed variant of a binary / debug file
            probe("e3.cab_request");
            let leaf = rel.rsplit('/').next().unwrap_or(&rel).to_string();
            let archive = build_cab(&leaf);
            let (plan, label) = draw_plan_for(&archive, allow_stall);
            simkit::log_line(|| format!("server: {} for cabinet {}", label, info.url));
            return plan;
        }
        if is_file {
            // opaque binary / debug file
            let blob = simkit::blob("e3.file.blob", range("e3.file.len", 0, 3000) as usize);
            let (plan, label) = draw_plan_for(&blob, allow_stall);
            simkit::log_line(|| format!("server: {} for file {}", label, info.url));
            return plan;
        }
        if !info.follows_redirects {
            // code_file/code_id lookup
            for ms in &mods {
                if !ms.needs_code_lookup {
                    continue;
                }
                if let Some(p) = breakpad_symbols::code_info_breakpad_sym_lookup(&*ms.module) {
                    if info.url.ends_with(&url_path_encode(&p)) || info.url.contains(&p) {
                        return match if degraded { 3 } else { ch("e3.srv.codeid", 4) } {
                            0 => Plan::status(404),
                            1 => Plan::connect_error(),
                            _ => {
                                probe("e3.code_id_redirect");
                                let mut plan = Plan::redirect(302, &format!("/some/api/{}", ms.rel));
                                plan.head_delay = draw_delay("e3.srv.head_delay");
                                plan
                            }
                        };
                    }
                }
            }
        }
        Plan::status(404)
    });
}

fn url_path_encode(p: &str) -> String {
    // what Url::join does to the characters our benign names contain
    reqwest::Url::parse("http://x/").unwrap().join(p).map(|u| u.path()[1..].to_string()).unwrap_or_default()
}

fn install_tempfile(model: &Rc<RefCell<Model>>, fault_den: u32) {
    let m1 = model.clone();
    let decide: tsim::Decide = Box::new(move |op: &tsim::Op| {
        if fault_den == 0 {
            return tsim::Fault::None;
        }
        match op {
            tsim::Op::Create { .. } => {
                if chance("e3.tmp.create_fault", 1, fault_den * 2) {
                    probe("e3.create_fault");
                    tsim::Fault::Errno([libc::ENOSPC, libc::EACCES, libc::EMFILE][ch("e3.tmp.create_errno", 3) as usize])
                } else {
                    tsim::Fault::None
                }
            }
            tsim::Op::Write { len, .. } => {
                if chance("e3.tmp.write_fault", 1, fault_den) {
                    probe("e3.write_fault");
                    match ch("e3.tmp.write_kind", 4) {
                        0 => tsim::Fault::Errno(libc::ENOSPC),
                        1 => tsim::Fault::Interrupted,
                        2 => tsim::Fault::Short(1 + ch("e3.tmp.short", (*len as u32).max(1)) as usize),
                        _ => tsim::Fault::TornThenErrno(ch("e3.tmp.torn", *len as u32 + 1) as usize, libc::ENOSPC),
                    }
                } else {
                    tsim::Fault::None
                }
            }
            tsim::Op::Persist { .. } => {
                if chance("e3.tmp.persist_fault", 1, fault_den) {
                    probe("e3.persist_fault");
                    tsim::Fault::Errno([libc::EXDEV, libc::EACCES, libc::ENOSPC][ch("e3.tmp.persist_errno", 3) as usize])
                } else {
                    tsim::Fault::None
                }
            }
        }
    });
    let observe: tsim::Observe = Box::new(move |ev: &tsim::Event| {
        simkit::log_line(|| format!("tempfile: {:?}", ev));
        let mut m = m1.borrow_mut();
        match ev {
            tsim::Event::Created { path } => m.live_temps.push(path.clone()),
            tsim::Event::Dropped { path, .. } => m.live_temps.retain(|p| p != path),
            tsim::Event::Persisted { from, ok, .. } => {
                if *ok {
                    m.live_temps.retain(|p| p != from);
                }
            }
            tsim::Event::PersistBegin { to, .. } => {
                // the rival process commits the same entry right now
                if let Some((rel, content)) = m.rival_pending.take() {
                    if to.ends_with(&rel) {
                        if std::fs::write(to, &content).is_ok() {
                            m.foreign.entry(rel).or_default().push(content);
                            probe("e3.rival_commit");
                        }
                    } else {
                        m.rival_pending = Some((rel, content));
                    }
                }
            }
            _ => {}
        }
        let window: Option<PathBuf> = match ev {
            tsim::Event::PersistBegin { to, .. } => Some(to.clone()),
            tsim::Event::Persisted { to, ok, .. } => {
                if !*ok && !to.exists() {
                    if let Ok(rel) = to.strip_prefix(&m.cache.clone()) {
                        m.persist_failed.insert(rel.to_string_lossy().to_string());
                        probe("e3.persist_failed_entry_gone");
                    }
                }
                Some(to.clone())
            }
            _ => None,
        };
        if m.violation.is_none() {
            if let Err(v) = m.check_fs(window.as_deref()) {
                m.violation = Some(v);
            }
        }
    });
    tsim::install(Some(decide), Some(observe));
}

fn err_name(e: &SymbolError) -> &'static str {
    match e {
        SymbolError::NotFound => "NotFound",
        SymbolError::MissingDebugFileOrId => "MissingDebugFileOrId",
        SymbolError::LoadError(_) => "LoadError",
        SymbolError::ParseError(..) => "ParseError",
    }
}

pub fn run() -> Outcome {
    run_inner(false)
}

/// C12's third scenario: concurrent `locate_file` calls on one instance.
pub fn run_c12_files() -> Outcome {
    run_inner(true)
}

fn run_inner(c12_files: bool) -> Outcome {
    let cfg = draw_exec_config(400_000);
    let world = build_world(if c12_files { 6 } else { 4 }, c12_files);
    let model = Rc::new(RefCell::new(Model {
        cache: world.scratch.root.join("cache"),
        tmp: world.scratch.root.join("tmp"),
        mods: world.mods.clone(),
        foreign: BTreeMap::new(),
        parses: BTreeMap::new(),
        live_temps: Vec::new(),
        violation: None,
        fs_checks: 0,
        file_rels: BTreeMap::new(),
        sym_urls: BTreeMap::new(),
        cab_rels: BTreeMap::new(),
        rival_pending: None,
        established: BTreeSet::new(),
        degraded: false,
        persist_failed: BTreeSet::new(),
    }));
    {
        let mut m = model.borrow_mut();
        match world.pre {
            Pre::Good => {
                m.foreign.insert(world.mods[0].rel.clone(), vec![good_entry(&world.mods[0])]);
            }
            Pre::Corrupt => {
                m.foreign.insert(world.mods[0].rel.clone(), vec![b"MODULE Linux x86 000 x\nthis is garbage\n".to_vec()]);
            }
            _ => {}
        }
        if world.cache_blocked {
            // the blocking file itself is foreign content
            let entry0 = PathBuf::from(&world.mods[0].rel);
            let parent = entry0.parent().unwrap().parent().unwrap().to_string_lossy().to_string();
            m.foreign.insert(parent, vec![b"not a directory".to_vec()]);
        }
        if !c12_files && chance("e3.rival", 1, 6) {
            let mi = ch("e3.rival.module", world.mods.len() as u32) as usize;
            let mut content = (*world.mods[mi].body).clone();
            content.extend_from_slice(b"INFO URL http://rival.example/other\n");
            m.rival_pending = Some((world.mods[mi].rel.clone(), content));
        }
    }
    install_transport(&world, &model);
    let fault_den = if c12_files { 0 } else { [0u32, 0, 12, 4][ch("e3.tmp.fault_den", 4) as usize] };
    install_tempfile(&model, fault_den);

    let results: Rc<RefCell<Vec<Option<OpResult>>>> = Rc::new(RefCell::new((0..world.ops.len() * 2).map(|_| None).collect()));
    let mut ex = Exec::new(cfg.clone());
    let spawn_op = |ex: &mut Exec, slot: usize, op: &Op| -> usize {
        let sup = world.suppliers[op.inst].clone();
        let m = world.mods[op.module].module.clone();
        let res = results.clone();
        let kind = op.kind;
        ex.spawn(format!("op{slot}"), async move {
            let r = match kind {
                OpKind::Symbols => OpResult::Symbols(sup.locate_symbols(&*m).await.map(|r| r.symbols)),
                OpKind::File(k) => {
                    let r = sup.locate_file(&*m, k).await.map_err(|_| ());
                    // judged at the moment of return: a later commit by another instance may
                    // legitimately remove the entry again (remove + failed persist)
                    if let Ok(p) = &r {
                        if !p.is_file() {
                            simkit::probe("e3.file_result_missing_at_return");
                        }
                        // the path must be the one of *this* module and *this* kind of file
                        let want = breakpad_symbols::lookup(&*m, k).map(|l| l.cache_rel);
                        if want.as_deref().map(|w| !p.ends_with(w)).unwrap_or(true) {
                            simkit::probe("e3.file_result_wrong_path");
                        }
                    }
                    OpResult::File(r)
                }
            };
            simkit::log_line(|| format!("op{slot} -> {}", match &r { OpResult::Symbols(Ok(_)) => "Ok(symbols)".to_string(), OpResult::Symbols(Err(e)) => format!("Err({})", err_name(e)), OpResult::File(r) => format!("{:?}", r) }));
            res.borrow_mut()[slot] = Some(r);
        })
    };
    let mut task_of_slot: Vec<Option<usize>> = vec![None; world.ops.len() * 2];
    for (i, op) in world.ops.iter().enumerate() {
        task_of_slot[i] = Some(spawn_op(&mut ex, i, op));
    }

    let mut cancelled = 0u32;
    let mut mid_rival_done = false;
    // (only in worlds without a pre-existing entry: the oracles about such an entry assume it stays)
    let prune_enabled = !c12_files && world.pre == Pre::None && chance("e3.prune", 1, 8);
    let mut prune_done = false;
    let model2 = model.clone();
    let nops = world.ops.len();
    let mut retry_queue: Vec<usize> = Vec::new();
    let stop = loop {
        match ex.step() {
            Ok(_kind) => {
                // cancellation at poll boundaries
                for i in 0..nops {
                    if let (Some(t), Some(c)) = (task_of_slot[i], world.ops[i].cancel_after) {
                        if !ex.is_done(t) && ex.task_polls(t) >= c {
                            ex.cancel(t);
                            cancelled += 1;
                            probe("e3.cancelled_midway");
                            if world.ops[i].retry {
                                retry_queue.push(i);
                            }
                        }
                    }
                }
                for i in retry_queue.drain(..) {
                    let mut op = world.ops[i].clone();
                    op.cancel_after = None;
                    task_of_slot[nops + i] = Some(spawn_op(&mut ex, nops + i, &op));
                    probe("e3.retry_after_cancel");
                }
                // a rival commit in the middle of somebody's download
                {
                    let mut m = model2.borrow_mut();
                    if !mid_rival_done && m.rival_pending.is_some() && !m.live_temps.is_empty() && chance("e3.rival.mid", 1, 8) {
                        let (rel, content) = m.rival_pending.take().unwrap();
                        let p = m.cache.join(&rel);
                        if let Some(parent) = p.parent() {
                            let _ = std::fs::create_dir_all(parent);
                        }
                        if !p.exists() && std::fs::write(&p, &content).is_ok() {
                            m.foreign.entry(rel).or_default().push(content);
                            probe("e3.rival_commit");
                            probe("e3.rival_mid_download");
                        }
                        mid_rival_done = true;
                    }
                    // another user of the cache prunes a module's directory while a download is
                    // in flight (cache clean-up): the commit then finds its directory gone
                    if prune_enabled && !prune_done && !m.live_temps.is_empty() && chance("e3.prune.mid", 1, 6) {
                        let mi = ch("e3.prune.module", m.mods.len() as u32) as usize;
                        let rel = m.mods[mi].rel.clone();
                        if let Some(top) = rel.split('/').next() {
                            let dir = m.cache.join(top);
                            if dir.is_dir() && std::fs::remove_dir_all(&dir).is_ok() {
                                probe("e3.cache_dir_pruned");
                                // what lived under it was taken away by that other user, not by us
                                let gone: Vec<String> = m.established.iter().filter(|r| r.starts_with(&format!("{top}/"))).cloned().collect();
                                for r in gone {
                                    m.persist_failed.insert(r);
                                }
                                // ... and whatever is committed there from now on may be pruned too
                                for ms in m.mods.clone() {
                                    if ms.rel.starts_with(&format!("{top}/")) {
                                        m.persist_failed.insert(ms.rel.clone());
                                    }
                                }
                            }
                        }
                        prune_done = true;
                    }
                    if let Some(v) = m.violation.clone() {
                        break Err(v);
                    }
                    if let Err(v) = m.check_fs(None) {
                        break Err(v);
                    }
                }
            }
            Err(stop) => break Ok(stop),
        }
    };

    let snaps = reqwest::sim::snapshots();
    let world_desc = json!({
        "modules": world.mods.iter().map(|m| json!({"rel": m.rel, "code_id_lookup": m.needs_code_lookup, "body_len": m.body.len()})).collect::<Vec<_>>(),
        "instances": world.suppliers.len(),
        "urls": world.urls,
        "ops": world.ops.iter().map(|o| format!("{:?}", o)).collect::<Vec<_>>(),
        "pre_existing": format!("{:?}", world.pre),
        "local_symbol_file": world.local_file.as_ref().map(|(g, _)| if *g { "good" } else { "corrupt" }),
        "tmp_missing": world.tmp_missing,
        "cache_parent_blocked": world.cache_blocked,
        "timeout_s": world.timeout_s,
        "tempfile_fault_rate": if fault_den == 0 { "0".to_string() } else { format!("1/{fault_den}") },
        "exec": exec_config_json(&cfg),
    });

    let result = (|| -> simkit::Check {
        let stop = stop?;
        match stop {
            Stop::AllDone => {}
            Stop::Deadlock(t) => return Err(Violation::new("c16.deadlock", format!("{} lookup(s) never completed although nothing is pending", t.len()))),
            Stop::Budget => return Err(Violation::new("c16.livelock", "step budget exhausted")),
        }
        let mut m = model.borrow_mut();
        if let Some(v) = m.violation.clone() {
            return Err(v);
        }
        m.check_fs(None)?;
        // (not in runs where another user of the cache pruned a directory: a remembered path may
        // then name a file that user has deleted since)
        let pruned = simkit::with_ctx(|c| c.probes.get("e3.cache_dir_pruned").copied().unwrap_or(0)) > 0;
        simkit::ensure!(pruned || simkit::with_ctx(|c| c.probes.get("e3.file_result_missing_at_return").copied().unwrap_or(0)) == 0, "c16.file_result_missing", "locate_file returned a path that was not a file at the moment of return");
        simkit::ensure!(simkit::with_ctx(|c| c.probes.get("e3.file_result_wrong_path").copied().unwrap_or(0)) == 0, "c12.file_result_wrong_path", "locate_file returned the path of a different module or a different kind of file (requesters of distinct files share one remembered result)");
        // 3. no temp file left once everything resolved or was cancelled
        if m.tmp.is_dir() {
            let (tfiles, _) = list_tree(&m.tmp.clone());
            simkit::ensure!(tfiles.is_empty(), "c16.stray_temp", "a temporary file outlived its download");
        }
        drop(m);

        // results are consistent with the model
        let res = results.borrow();
        for (slot, r) in res.iter().enumerate() {
            let Some(r) = r else { continue };
            let op = &world.ops[slot % nops];
            let ms = &world.mods[op.module];
            match r {
                OpResult::Symbols(Ok(sym)) => {
                    // either a permitted cache/local content, or an own clean download
                    let mut ok = false;
                    let mut candidates: Vec<(Vec<u8>, Option<String>)> = Vec::new();
                    for s in snaps.iter().filter(|s| s.saw_eof) {
                        if model.borrow().sym_urls.get(&url_without_query(&s.info.url)).copied() == Some(op.module) || world.mods[op.module].rel == world.mods[model.borrow().sym_urls.get(&url_without_query(&s.info.url)).copied().unwrap_or(op.module)].rel {
                            candidates.push((s.delivered.clone(), Some(s.info.origin_url.clone())));
                        }
                    }
                    if let Some(v) = model.borrow().foreign.get(&ms.rel) {
                        for c in v {
                            candidates.push((c.clone(), None));
                        }
                    }
                    if op.module == 0 {
                        if let Some((_, c)) = &world.local_file {
                            candidates.push((c.clone(), None));
                        }
                    }
                    for (bytes, url) in candidates {
                        if let Ok(mut t) = SymbolFile::from_bytes(&bytes) {
                            if let Some(u) = url {
                                t.url = Some(u);
                            }
                            if &t == sym {
                                ok = true;
                                break;
                            }
                        }
                    }
                    simkit::ensure!(ok, "c16.result_not_from_a_complete_source", "a lookup returned a symbol table that is neither a complete download nor a complete cache entry");
                }
                OpResult::Symbols(Err(e)) => {
                    // relaxation under FS faults: a clean, parseable own download must still yield Ok.
                    // (only checked when this instance issued exactly one lookup of this module)
                    let same: Vec<&Op> = world.ops.iter().filter(|o| o.inst == op.inst && o.module == op.module && o.kind == OpKind::Symbols).collect();
                    if same.len() == 1 && world.pre != Pre::Corrupt {
                        let _ = e;
                    }
                    simkit::ensure!(
                        !matches!(e, SymbolError::LoadError(_)) || true,
                        "c16.unexpected_error",
                        "unexpected error class {}",
                        err_name(e)
                    );
                }
                OpResult::File(Ok(_)) => {}
                OpResult::File(Err(())) => {}
            }
        }
        // 6. only NotFound cascades: a corrupt pre-existing entry means an error and no request
        if world.pre == Pre::Corrupt {
            for (slot, r) in res.iter().enumerate() {
                let Some(OpResult::Symbols(r)) = r else { continue };
                let op = &world.ops[slot % nops];
                if op.module == 0 && !world.mods[0].needs_code_lookup {
                    simkit::ensure!(matches!(r, Err(SymbolError::ParseError(..))), "c16.corrupt_entry_cascaded", "a corrupt cache entry did not stop the lookup with a parse error");
                }
            }
            if !world.mods[0].needs_code_lookup {
                let asked = snaps.iter().any(|s| model.borrow().sym_urls.get(&url_without_query(&s.info.url)).copied().map(|mi| world.mods[mi].rel == world.mods[0].rel).unwrap_or(false));
                simkit::ensure!(!asked, "c16.corrupt_entry_cascaded", "a corrupt cache entry was followed by a network request");
            }
        }
        // 6'. the local symbol path is consulted before the network: a good local file answers
        // without a request, a corrupt one stops the lookup with a parse error and no request
        if let Some((good, _)) = &world.local_file {
            if !world.mods[0].needs_code_lookup {
                let asked = snaps.iter().any(|s| model.borrow().sym_urls.get(&url_without_query(&s.info.url)).copied().map(|mi| world.mods[mi].rel == world.mods[0].rel).unwrap_or(false));
                simkit::ensure!(!asked, "c16.local_file_ignored", "a symbol file in the local symbol path was followed by a network request ({})", if *good { "good file" } else { "corrupt file" });
                for (slot, r) in res.iter().enumerate() {
                    let Some(OpResult::Symbols(r)) = r else { continue };
                    let op = &world.ops[slot % nops];
                    if op.module == 0 {
                        if *good {
                            simkit::ensure!(r.is_ok(), "c16.local_file_ignored", "a good local symbol file did not answer the lookup");
                        } else {
                            simkit::ensure!(matches!(r, Err(SymbolError::ParseError(..))), "c16.corrupt_entry_cascaded", "a corrupt local symbol file did not stop the lookup with a parse error");
                        }
                    }
                }
            }
        }
        // 5. every new .sym entry reloads, without network, to the table and URL of its download
        let (files, _) = list_tree(&world.scratch.root.join("cache"));
        for (rel, content) in &files {
            let Some(mi) = world.mods.iter().position(|m| &m.rel == rel) else { continue };
            let ms = &world.mods[mi];
            let foreign = model.borrow().foreign.get(rel).map(|v| v.iter().any(|c| c == content)).unwrap_or(false);
            // expected table: the one of the clean download it consists of (or of the foreign content)
            let mut expected: Option<SymbolFile> = None;
            if foreign {
                expected = SymbolFile::from_bytes(content).ok();
                if expected.is_none() {
                    continue; // pre-existing corrupt entry: not ours
                }
            } else {
                for s in snaps.iter().filter(|s| s.saw_eof) {
                    let trailer = note_for(&s.delivered, &s.info.origin_url);
                    if content.len() == s.delivered.len() + trailer.len() && content.starts_with(&s.delivered) && content.ends_with(trailer.as_bytes()) {
                        if let Ok(mut t) = SymbolFile::from_bytes(&s.delivered) {
                            t.url = Some(s.info.origin_url.clone());
                            expected = Some(t);
                            probe("e3.commit");
                        }
                    }
                }
            }
            let Some(expected) = expected else {
                return Err(Violation::new("c16.bad_cache_entry", "a committed entry does not correspond to any complete download"));
            };
            let fresh = HttpSymbolSupplier::new(vec![], world.scratch.root.join("cache"), world.scratch.root.join("tmp"), vec![], Duration::from_secs(1));
            let mut ex2 = Exec::new(simkit::ExecConfig::default());
            let out: Rc<RefCell<Option<Result<SymbolFile, SymbolError>>>> = Rc::new(RefCell::new(None));
            let out2 = out.clone();
            let resolved = ms.resolved.clone();
            ex2.spawn("reload", async move {
                let r = fresh.locate_symbols(&*resolved).await.map(|r| r.symbols);
                *out2.borrow_mut() = Some(r);
            });
            let _ = ex2.run(|_, _| Ok(()))?;
            let got = out.borrow_mut().take();
            match got {
                Some(Ok(t)) => {
                    probe("e3.cache_hit_reload");
                    simkit::ensure!(
                        t == expected,
                        "c16.reload_differs",
                        "a lookup served from the cache yields a different {} than the original download",
                        if t.url != expected.url { "URL" } else { "symbol table" }
                    );
                }
                Some(Err(e)) => return Err(Violation::new("c16.reload_fails", format!("a committed entry cannot be loaded back from the cache ({})", err_name(&e)))),
                None => return Err(Violation::new("c16.reload_fails", "reload did not complete")),
            }
            // 5'. a module that lacks debug info finds its entry again through the servers'
            // code-file / code-id lookup, also when the servers can serve nothing else any more
            // (the Location header of the simulated lookup carries the path as it is; a header
            // value the client can read as text is ASCII, so other names cannot be looked up)
            if ms.needs_code_lookup && ms.rel.is_ascii() {
                model.borrow_mut().degraded = true;
                let before = reqwest::sim::snapshots().len();
                let fresh = HttpSymbolSupplier::new(world.urls.clone(), world.scratch.root.join("cache"), world.scratch.root.join("tmp"), vec![], Duration::from_secs(10_000_000));
                let mut ex3 = Exec::new(simkit::ExecConfig::default());
                let out: Rc<RefCell<Option<Result<SymbolFile, SymbolError>>>> = Rc::new(RefCell::new(None));
                let out2 = out.clone();
                let module = ms.module.clone();
                ex3.spawn("reload-by-code-id", async move {
                    let r = fresh.locate_symbols(&*module).await.map(|r| r.symbols);
                    *out2.borrow_mut() = Some(r);
                });
                let _ = ex3.run(|_, _| Ok(()))?;
                model.borrow_mut().degraded = false;
                let object_requests = reqwest::sim::snapshots()[before..].iter().filter(|s| s.info.follows_redirects).count();
                let got = out.borrow_mut().take();
                match got {
                    Some(Ok(t)) => {
                        probe("e3.cache_hit_by_code_id");
                        simkit::ensure!(object_requests == 0, "c16.cached_entry_not_used", "a module without debug info whose entry is in the cache was requested from the servers again");
                        simkit::ensure!(t == expected, "c16.reload_differs", "a lookup served from the cache yields a different {} than the original download", if t.url != expected.url { "URL" } else { "symbol table" });
                    }
                    Some(Err(e)) => {
                        return Err(Violation::new("c16.cached_entry_not_used", format!("a module without debug info whose entry is in the cache is not served from it once the servers fail ({})", err_name(&e))))
                    }
                    None => return Err(Violation::new("c16.reload_fails", "reload by code id did not complete")),
                }
            }
        }
        // C12 (files scenario): each file URL requested at most once per supplier instance
        if c12_files {
            let mut seen: BTreeMap<(u32, String), u32> = BTreeMap::new();
            for s in snaps.iter().filter(|s| s.info.url == s.info.origin_url) {
                *seen.entry((s.info.client, s.info.url.clone())).or_insert(0) += 1;
            }
            for ((_c, _u), n) in seen {
                simkit::ensure!(n <= 1, "c12.file_requested_twice", "one supplier instance requested the same file URL {} times", n);
            }
            probe("e2.http_files");
        }
        Ok(())
    })();

    let delivered_any = snaps.iter().any(|s| !s.delivered.is_empty());
    let had_fault = cancelled > 0
        || snaps.iter().any(|s| s.saw_err || s.timed_out || (s.saw_eof && s.planned_len < world.mods.iter().map(|m| m.body.len()).min().unwrap_or(0)))
        || world.suppliers.len() > 1
        || fault_den > 0
        || world.pre != Pre::None
        || world.tmp_missing;
    if snaps.iter().any(|s| s.timed_out) {
        probe("e3.timeout");
    }
    let digest = simkit::with_ctx(|c| c.digest);
    let key = simkit::rng::mix(&[crate::common::fnv(world_desc.to_string().as_bytes()), digest]);
    let fs_checks = model.borrow().fs_checks;
    // drop order: suppliers before scratch
    tsim::uninstall();
    reqwest::sim::uninstall();
    Outcome {
        result,
        nontrivial: if c12_files { snaps.len() >= 1 && world.ops.len() >= 2 } else { delivered_any && had_fault },
        key,
        info: json!({"world": world_desc, "requests": snaps.iter().map(|s| json!({"url": s.info.url, "client": s.info.client, "code": s.head_code, "planned_len": s.planned_len, "end": format!("{:?}", s.planned_end), "delivered": s.delivered.len(), "saw_eof": s.saw_eof, "saw_err": s.saw_err, "timed_out": s.timed_out, "dropped": s.dropped})).collect::<Vec<_>>(), "cancelled": cancelled, "fs_checks": fs_checks, "steps": ex.steps}),
    }
}

#[allow(dead_code)]
fn _p(_: &Path) {}
