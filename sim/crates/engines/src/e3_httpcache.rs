use simkit::Outcome;
pub const RULE: &str = "todo";
pub fn run() -> Outcome { todo!() }
pub fn run_c12_files() -> Outcome { todo!() }
