//! Crashed-process model → minidump bytes (via the repository's own `minidump-synth`) plus
//! per-module Breakpad symbol files that are consistent with the modules' address ranges.
//!
//! This is a *workload* generator: it produces plausible and adversarial shapes; it does not
//! produce a ground-truth call chain.

use crate::symgen;
use minidump_common::format as md;
use minidump_synth::{
    DumpString, Exception, HandleDescriptor, Memory, MemoryInfo, MiscStream, Module as SynthModule,
    SimpleStream, SynthMinidump, SystemInfo, Thread, ThreadName, UnloadedModule,
};
use scroll::Pwrite;
use serde_json::json;
use simkit::rng::Xoshiro;
use simkit::{ch, chance, probe, range};
use test_assembler::{Endian, Label, LabelMaker, Section};

#[derive(Clone, Copy, Debug, PartialEq, Eq)]
pub enum Arch {
    X86,
    Amd64,
    Arm,
    Arm64,
    /// Breakpad's older arm64 context layout (has its own unwinder copy).
    Arm64Old,
    Mips,
    /// Context-only architectures: no unwinder, but the state must still render.
    Ppc,
    Ppc64,
    Sparc,
}

impl Arch {
    pub fn word(self) -> u64 {
        match self {
            Arch::X86 | Arch::Arm | Arch::Mips | Arch::Ppc => 4,
            _ => 8,
        }
    }
    pub fn name(self) -> &'static str {
        match self {
            Arch::X86 => "x86",
            Arch::Amd64 => "x86_64",
            Arch::Arm => "arm",
            Arch::Arm64 | Arch::Arm64Old => "arm64",
            Arch::Mips => "mips",
            Arch::Ppc => "ppc",
            Arch::Ppc64 => "ppc64",
            Arch::Sparc => "sparc",
        }
    }
    fn processor_architecture(self) -> u16 {
        (match self {
            Arch::X86 => md::ProcessorArchitecture::PROCESSOR_ARCHITECTURE_INTEL,
            Arch::Amd64 => md::ProcessorArchitecture::PROCESSOR_ARCHITECTURE_AMD64,
            Arch::Arm => md::ProcessorArchitecture::PROCESSOR_ARCHITECTURE_ARM,
            Arch::Arm64 => md::ProcessorArchitecture::PROCESSOR_ARCHITECTURE_ARM64,
            Arch::Arm64Old => md::ProcessorArchitecture::PROCESSOR_ARCHITECTURE_ARM64_OLD,
            Arch::Mips => md::ProcessorArchitecture::PROCESSOR_ARCHITECTURE_MIPS,
            Arch::Ppc => md::ProcessorArchitecture::PROCESSOR_ARCHITECTURE_PPC,
            Arch::Ppc64 => md::ProcessorArchitecture::PROCESSOR_ARCHITECTURE_PPC64,
            Arch::Sparc => md::ProcessorArchitecture::PROCESSOR_ARCHITECTURE_SPARC,
        }) as u16
    }
}

#[derive(Clone, Copy, Debug, PartialEq, Eq)]
pub enum OsKind {
    Windows,
    Linux,
    MacOs,
    Android,
    Ios,
}

impl OsKind {
    fn platform_id(self) -> u32 {
        (match self {
            OsKind::Windows => md::PlatformId::VER_PLATFORM_WIN32_NT,
            OsKind::Linux => md::PlatformId::Linux,
            OsKind::MacOs => md::PlatformId::MacOs,
            OsKind::Android => md::PlatformId::Android,
            OsKind::Ios => md::PlatformId::Ios,
        }) as u32
    }
    pub fn name(self) -> &'static str {
        match self {
            OsKind::Windows => "windows",
            OsKind::Linux => "Linux",
            OsKind::MacOs => "mac",
            OsKind::Android => "Android",
            OsKind::Ios => "ios",
        }
    }
    pub fn is_linuxish(self) -> bool {
        matches!(self, OsKind::Linux | OsKind::Android)
    }
}

#[derive(Clone, Debug)]
pub struct ModSpec {
    pub code_file: String,
    pub base: u64,
    pub size: u32,
    pub debug_file: String,
    pub guid: (u32, u16, u16, [u8; 8]),
    pub age: u32,
    pub has_cv: bool,
    /// The symbol file served for this module (possibly corrupt / random / absent).
    pub sym: Option<Vec<u8>>,
    /// cache/server relative path `<debug leaf>/<ID>/<leaf>.sym` when `has_cv`.
    pub rel: Option<String>,
    pub sym_kind: &'static str,
    /// Module-relative addresses of functions with unusual unwind records: return addresses
    /// and instruction pointers are biased towards them.
    pub hot: Vec<u64>,
    /// CodeView record is an ELF build id rather than a PDB70 record (Linux / Android modules).
    pub elf_build_id: bool,
    /// No CodeView record in the dump; the symbol server resolves code file + code id to
    /// `rel` with a redirect.
    pub code_lookup: bool,
}

impl ModSpec {
    pub fn breakpad_id(&self) -> String {
        format!(
            "{:08X}{:04X}{:04X}{}{:x}",
            self.guid.0,
            self.guid.1,
            self.guid.2,
            self.guid.3.iter().map(|b| format!("{:02X}", b)).collect::<String>(),
            self.age
        )
    }
}

#[derive(Clone, Debug)]
pub struct ThreadSpec {
    pub id: u32,
    pub stack_base: u64,
    pub stack_len: usize,
    pub ip: u64,
    pub sp: u64,
    pub fp: u64,
    pub lr: u64,
    pub shape: &'static str,
}

#[derive(Clone, Debug)]
pub struct WorldOpts {
    pub max_threads: u32,
    pub many_threads: bool,
    /// Adversarial stack / register / CFI / stream shapes.
    pub adversarial: bool,
    /// Every module gets a CodeView record (needed by the HTTP supplier).
    pub need_debug_ids: bool,
    /// Allow corrupt / random symbol files.
    pub hostile_symbols: bool,
    /// Also arm64-old, mips and the context-only architectures ppc / ppc64 / sparc.
    pub all_archs: bool,
    /// Expression-evaluator stress: one or two modules and threads, every function carries an
    /// unusual STACK CFI / STACK WIN program, instruction pointers start inside such functions.
    pub focus_unwind_expr: bool,
}

pub struct World {
    pub arch: Arch,
    pub os: OsKind,
    pub modules: Vec<ModSpec>,
    pub threads: Vec<ThreadSpec>,
    pub dump: Vec<u8>,
    pub total_stack_bytes: u64,
    pub has_proc_limits: bool,
    /// Every memory region written to the dump: (base address, length).
    pub regions: Vec<(u64, u64)>,
    /// Thread id named by the exception stream (its context may replace a thread's own).
    pub crashing_id: Option<u32>,
    /// A BreakpadInfo stream names a requesting thread (same effect as the exception's id).
    pub uses_breakpad_info: bool,
    pub describe: serde_json::Value,
}

fn draw_arch(opts: &WorldOpts) -> Arch {
    [Arch::Amd64, Arch::X86, Arch::Arm64, Arch::Arm, Arch::Amd64, Arch::X86, Arch::Arm64, Arch::Arm, Arch::Arm64Old, Arch::Mips, Arch::Ppc, Arch::Ppc64, Arch::Sparc][ch("dump.arch", if opts.all_archs { 13 } else { 8 }) as usize]
}

fn module_base(arch: Arch, i: usize) -> u64 {
    match arch.word() {
        4 => 0x0040_0000 + i as u64 * 0x0010_0000,
        _ => 0x7ff6_0000_0000 + i as u64 * 0x0100_0000,
    }
}

fn stack_base(arch: Arch, t: usize) -> u64 {
    match arch.word() {
        4 => 0x0012_0000 + t as u64 * 0x0001_0000,
        _ => 0x7ffd_1000_0000 + t as u64 * 0x0010_0000,
    }
}

const LEAVES: [&str; 8] = ["app.exe", "xul.dll", "libfoo.so", "kernel32.dll", "libc.so.6", "XUL", "mod with space.dll", "libfoo.so"];
const DIRS: [&str; 5] = ["C:\\Program Files\\App\\", "/usr/lib/", "", "D:\\other\\", "/data/app/lib/arm/"];

/// CFI rules for one function.  `adversarial` adds no-progress, never-reads-memory and
/// aliased-register programs.
fn cfi_for(arch: Arch, adversarial: bool) -> (String, Option<String>, bool) {
    let weird = adversarial && (symgen::FORCE_WEIRD.with(|f| f.get()) || chance("dump.cfi.weird", 1, 4));
    let (a, b) = cfi_for_inner(arch, weird);
    (a, b, weird)
}

fn cfi_for_inner(arch: Arch, weird: bool) -> (String, Option<String>) {
    match arch {
        Arch::X86 => {
            if weird {
                match ch("dump.cfi.x86.weird", 5) {
                    0 => (".cfa: $esp .ra: $eip".into(), None),
                    1 => (".cfa: $esp 4 + .ra: $eip".into(), None),
                    2 => (".cfa: $esp 4 - .ra: .cfa ^".into(), None),
                    3 => (".cfa: $esp 4 + .ra: .cfa 4 - ^ $esp: 0".into(), None),
                    _ => (".cfa: $ebp 8 + .ra: .cfa 4 - ^ $ebp: .cfa 8 - ^ $ebx: .cfa 4294967295 * ^".into(), None),
                }
            } else if chance("dump.cfi.x86.fp", 1, 2) {
                (".cfa: $esp 4 + .ra: .cfa 4 - ^".into(), Some(".cfa: $ebp 8 + $ebp: .cfa 8 - ^".into()))
            } else {
                (format!(".cfa: $esp {} + .ra: .cfa 4 - ^", 4 + 4 * ch("dump.cfi.x86.k", 6)), None)
            }
        }
        Arch::Amd64 => {
            if weird {
                match ch("dump.cfi.amd64.weird", 4) {
                    0 => (".cfa: $rsp .ra: $rip".into(), None),
                    1 => (".cfa: $rsp 8 + .ra: $rip".into(), None),
                    2 => (".cfa: $rsp 8 - .ra: .cfa ^".into(), None),
                    _ => (".cfa: $rsp 18446744073709551608 + .ra: .cfa 8 - ^".into(), None),
                }
            } else if chance("dump.cfi.amd64.fp", 1, 2) {
                (".cfa: $rsp 8 + .ra: .cfa 8 - ^".into(), Some(".cfa: $rbp 16 + $rbp: .cfa 16 - ^".into()))
            } else {
                (format!(".cfa: $rsp {} + .ra: .cfa 8 - ^", 8 + 8 * ch("dump.cfi.amd64.k", 6)), None)
            }
        }
        Arch::Mips | Arch::Ppc | Arch::Ppc64 | Arch::Sparc => {
            if weird {
                (".cfa: $sp 0 + .ra: $ra".into(), None)
            } else {
                (format!(".cfa: $sp {} + .ra: .cfa 4 - ^ $fp: .cfa 8 - ^", 16 + 8 * ch("dump.cfi.mips.k", 4)), None)
            }
        }
        Arch::Arm64 | Arch::Arm64Old => {
            if weird {
                match ch("dump.cfi.arm64.weird", 4) {
                    0 => {
                        probe("e4.cfi_alias_rules");
                        (".cfa: sp 16 + .ra: .cfa 8 - ^ x29: .cfa 16 - ^ fp: .cfa 24 - ^".into(), None)
                    }
                    1 => (".cfa: sp 16 + .ra: pc".into(), None),
                    2 => (".cfa: sp .ra: x30".into(), None),
                    _ => {
                        probe("e4.cfi_alias_rules");
                        (".cfa: sp 32 + .ra: x30 lr: .cfa 8 - ^ x30: .cfa 16 - ^ x29: .cfa 32 - ^".into(), None)
                    }
                }
            } else {
                (format!(".cfa: sp {} + .ra: .cfa 8 - ^ x29: .cfa 16 - ^", 16 + 16 * ch("dump.cfi.arm64.k", 4)), None)
            }
        }
        Arch::Arm => {
            if weird {
                match ch("dump.cfi.arm.weird", 3) {
                    0 => {
                        probe("e4.cfi_alias_rules");
                        (".cfa: sp 8 + .ra: .cfa 4 - ^ r11: .cfa 8 - ^ fp: .cfa 12 - ^".into(), None)
                    }
                    1 => (".cfa: sp 8 + .ra: pc".into(), None),
                    _ => {
                        probe("e4.cfi_alias_rules");
                        (".cfa: r13 8 + .ra: lr r14: .cfa 4 - ^ lr: .cfa 8 - ^".into(), None)
                    }
                }
            } else {
                (format!(".cfa: sp {} + .ra: .cfa 4 - ^ r11: .cfa 8 - ^", 8 + 8 * ch("dump.cfi.arm.k", 4)), None)
            }
        }
    }
}

fn hostile_u32() -> String {
    ["ffffffff", "80000000", "fffffffc", "7fffffff", "0"][ch("dump.win.hostile", 5) as usize].to_string()
}

/// A symbol file whose FUNC / CFI / WIN records cover the module's address range.
fn module_symbols(arch: Arch, os: OsKind, m: &ModSpec, adversarial: bool) -> (Vec<u8>, Vec<u64>) {
    let mut s = String::new();
    let mut hot: Vec<u64> = Vec::new();
    let leaf = crate::common::leaf(&m.debug_file);
    s.push_str(&format!("MODULE {} {} {} {}\n", os.name(), arch.name(), m.breakpad_id(), leaf));
    s.push_str("INFO CODE_ID 5EEDC0DE\n");
    if chance("dump.sym.own_info_url", 1, 4) {
        // a file that was published from somebody else's cache carries a source-URL note already
        s.push_str("INFO URL https://symbols.upstream.example/published/from/another/cache.sym\n");
    }
    s.push_str("FILE 0 src/main.c\nFILE 1 src/util.c\n");
    if chance("dump.sym.origins", 1, 2) {
        s.push_str("INLINE_ORIGIN 0 inlined_helper\nINLINE_ORIGIN 1 another_inlinee\n");
    }
    let func_twins = chance("dump.sym.func_twins", 1, 4);
    let extra_rule = if chance("dump.cfi.extra_rule", 1, 4) { 1 + ch("dump.cfi.extra_rule.kind", 6) } else { 0 };
    if extra_rule > 0 {
        probe("e4.cfi_malformed_extra_rule");
    }
    let inline_shape = if adversarial && chance("dump.sym.inline_weird", 1, 3) { 1 + ch("dump.sym.inline_shape", 4) } else { 0 };
    let stride: u64 = [0x100, 0x40, 0x400][ch("dump.sym.stride", 3) as usize];
    let nfuncs = ((m.size as u64 / stride).min(96)).max(1);
    let mut cfi = String::new();
    let mut win = String::new();
    for i in 0..nfuncs {
        let addr = 0x1000 + i * stride;
        if addr + stride > m.size as u64 {
            break;
        }
        let size = stride - if i % 3 == 0 { 0 } else { 8 };
        let params = if arch == Arch::X86 { (i % 4) * 4 } else { 0 };
        // function names: plain identifiers, and C++/Rust-style signatures with parameter lists
        // (argument recovery parses those), nested templates and non-ASCII text
        const SIGS: [&str; 10] = [
            "ns::Klass::method(int, char const*)",
            "Fenster::setze(Gr\u{f6}\u{df}e, int)",
            "\u{63cf}\u{753b}(\u{5e45}, \u{9ad8}\u{3055})",
            "std::map<int, std::pair<int, int> >::find(int const&)",
            "operator()(void)",
            "f(,)",
            "g((int, int), x)",
            "<T as core::fmt::Debug>::fmt(&self, &mut Formatter<'_>)",
            "weird)name(",
            "h(\u{1f980}, \u{e9}\u{e9}\u{e9}\u{e9}, a, b, c, d, e, f, g, h, i, j)",
        ];
        let fname = if i % 3 == 2 { format!("{} [{}]", SIGS[(i as usize / 3) % SIGS.len()], i) } else if i % 7 == 3 { format!("{}", SIGS[(i as usize) % SIGS.len()]) } else { format!("fn_{}_{}", leaf.replace(' ', "_"), i) };
        s.push_str(&format!("FUNC {:x} {:x} {:x} {}\n", addr, size, params, fname));
        if func_twins && i % 5 == 1 {
            // the same range described twice under another name (folded identical code): which
            // description the table keeps must not depend on anything but the file
            s.push_str(&format!("FUNC {:x} {:x} {:x} twin_of_{}\n", addr, size, params, i));
        }
        if i % 2 == 0 {
            if i % 4 == 0 {
                match inline_shape {
                    0 => {
                        s.push_str(&format!("INLINE 0 {} 0 0 {:x} {:x}\n", 10 + i, addr + 4, 8));
                        s.push_str(&format!("INLINE 1 {} 1 1 {:x} {:x}\n", 20 + i, addr + 6, 4));
                    }
                    // the unusual nestings cover the whole function, so that every frame in it
                    // expands them
                    1 => {
                        // a record at the deepest nesting level the format can express
                        s.push_str(&format!("INLINE 0 {} 0 0 {:x} {:x}\n", 10 + i, addr, size));
                        s.push_str(&format!("INLINE 4294967295 {} 1 1 {:x} {:x}\n", 20 + i, addr, size));
                        hot.push(addr);
                    }
                    2 => {
                        // a nesting level without a record
                        s.push_str(&format!("INLINE 0 {} 0 0 {:x} {:x}\n", 10 + i, addr, size));
                        s.push_str(&format!("INLINE 2 {} 1 1 {:x} {:x}\n", 20 + i, addr, size));
                        s.push_str(&format!("INLINE 1000000 {} 1 1 {:x} {:x}\n", 30 + i, addr, size));
                        hot.push(addr);
                    }
                    3 => {
                        // a deep chain of real levels
                        for d in 0..16 {
                            s.push_str(&format!("INLINE {} {} {} {} {:x} {:x}\n", d, 10 + d, d % 2, d % 2, addr, size));
                        }
                        hot.push(addr);
                    }
                    _ => {
                        // only a deep level, nothing at level 0; and a record nested in itself
                        s.push_str(&format!("INLINE 4294967295 {} 1 1 {:x} {:x}\n", 20 + i, addr, size));
                        s.push_str(&format!("INLINE 7 {} 1 1 {:x} {:x} {:x} {:x}\n", 20 + i, addr, size, addr, size));
                        hot.push(addr);
                    }
                }
            }
            s.push_str(&format!("{:x} {:x} {} 0\n", addr, size / 2, 100 + i));
            s.push_str(&format!("{:x} {:x} {} 1\n", addr + size / 2, size - size / 2, 200 + i));
        }
        // unwind info: most functions CFI, x86/windows some STACK WIN
        let force = symgen::FORCE_WEIRD.with(|f| f.get());
        if arch == Arch::X86 && os == OsKind::Windows && (i % 3 == 1 || (force && i % 2 == 0)) {
            let hostile = adversarial && chance("dump.win.hostile_sizes", 1, 4);
            let (p, sr, l) = if hostile { (hostile_u32(), hostile_u32(), hostile_u32()) } else { (format!("{:x}", params), "4".to_string(), format!("{:x}", 8 * (i % 5))) };
            if i % 2 == 0 {
                let prog = String::from_utf8(symgen::win_program(adversarial)).unwrap_or_default();
                if hostile || !(prog.starts_with("$T0 .raSearch =") || prog.starts_with("$T0 $ebp =") || prog.starts_with("$T2 $esp .cbLocals")) {
                    hot.push(addr);
                }
                win.push_str(&format!("STACK WIN 4 {:x} {:x} 3 1 {} {} {} 0 1 {}\n", addr, size, p, sr, l, prog));
            } else {
                win.push_str(&format!("STACK WIN 0 {:x} {:x} 3 1 {} {} {} 0 0 {}\n", addr, size, p, sr, l, i % 2));
            }
        } else if i % 5 != 4 {
            let (init, delta, weird) = cfi_for(arch, adversarial);
            if weird {
                hot.push(addr);
            }
            // a further rule for a callee-saved register whose expression is malformed in one
            // of the ways a broken dumper produces; the unwinder drops that one register
            let init = if extra_rule > 0 && i % 2 == 0 {
                let reg = match arch {
                    Arch::X86 => "$ebx",
                    Arch::Amd64 => "$rbx",
                    Arch::Arm64 | Arch::Arm64Old => "x19",
                    Arch::Arm => "r4",
                    _ => "$s0",
                };
                let expr = match extra_rule {
                    1 => ".cfa 16 - ^ 8",   // runs to completion with two values left
                    2 => "+",               // stack underflow
                    3 => ".cfa bogus +",    // unknown token
                    4 => "1 2 3 4 5 6 7 8", // many values left
                    5 => "0 ^",             // dereferences unmapped memory
                    _ => ".cfa 0 /",        // division by zero
                };
                format!("{init} {reg}: {expr}")
            } else {
                init
            };
            cfi.push_str(&format!("STACK CFI INIT {:x} {:x} {}\n", addr, size, init));
            if let Some(d) = delta {
                cfi.push_str(&format!("STACK CFI {:x} {}\n", addr + 4, d));
            }
        }
    }
    if adversarial && chance("dump.sym.dup_ids", 1, 3) {
        // the same FILE / INLINE_ORIGIN id defined twice with different names
        s.push_str("FILE 0 src/other_main.c\nFILE 1 src/other_util.c\nINLINE_ORIGIN 0 dup_inlinee\nINLINE_ORIGIN 1 dup_another\n");
    }
    s.push_str(&format!("PUBLIC {:x} 0 public_tail_{}\n", 0x800u64.min(m.size as u64 / 2), leaf.replace(' ', "_")));
    if adversarial && chance("dump.sym.dup_publics", 1, 3) {
        s.push_str(&format!("PUBLIC {:x} 0 public_dup_a\nPUBLIC {:x} 4 public_dup_b\n", 0x800u64.min(m.size as u64 / 2), 0x800u64.min(m.size as u64 / 2)));
    }
    s.push_str(&win);
    s.push_str(&cfi);
    (s.into_bytes(), hot)
}

struct Regs {
    ip: u64,
    sp: u64,
    fp: u64,
    lr: u64,
    /// Point the general-purpose registers at this address (+ small offsets).
    near: Option<u64>,
}

fn context_section(arch: Arch, r: &Regs, rng: &mut Xoshiro, be: bool) -> Section {
    let se = if be { scroll::BE } else { scroll::LE };
    let p32 = |v: u32| if be { v.to_be_bytes() } else { v.to_le_bytes() };
    let p64 = |v: u64| if be { v.to_be_bytes() } else { v.to_le_bytes() };
    let mut bytes: Vec<u8>;
    match arch {
        Arch::X86 => {
            let mut c = md::CONTEXT_X86::default();
            c.context_flags = 0x1003f;
            c.eip = r.ip as u32;
            c.esp = r.sp as u32;
            c.ebp = r.fp as u32;
            c.ebx = rng.next_u32();
            c.esi = rng.next_u32();
            c.edi = rng.next_u32();
            bytes = vec![0u8; 716];
            let n = bytes.pwrite_with(c, 0, se).expect("ctx");
            bytes.truncate(n);
        }
        Arch::Amd64 => {
            let mut c = md::CONTEXT_AMD64::default();
            c.context_flags = 0x10001f;
            c.rip = r.ip;
            c.rsp = r.sp;
            c.rbp = r.fp;
            c.rax = rng.next_u64();
            c.rbx = rng.next_u64();
            c.rcx = r.sp.wrapping_add(16);
            c.rdx = rng.next_u64() >> 40;
            c.rsi = rng.next_u64();
            c.rdi = r.sp;
            c.r12 = rng.next_u64();
            if let Some(a) = r.near {
                let flipped = rng.below(2) == 0 && a < u64::MAX - 0xffff;
                let mut o = |k: u64| {
                    let v = a.wrapping_add(k * 8).wrapping_add(rng.below(64) as u64);
                    if flipped {
                        v ^ (1u64 << rng.below(47))
                    } else {
                        v
                    }
                };
                c.rax = o(0);
                c.rbx = o(1);
                c.rdx = o(2);
                c.rsi = o(3);
                c.r8 = o(4);
                c.r9 = o(5);
                c.r10 = o(6);
                c.r13 = o(7);
            }
            bytes = vec![0u8; 1232];
            let n = bytes.pwrite_with(c, 0, se).expect("ctx");
            bytes.truncate(n);
        }
        Arch::Arm => {
            let mut c = md::CONTEXT_ARM::default();
            c.context_flags = 0x40000000 | 0x7;
            c.iregs[15] = r.ip as u32;
            c.iregs[13] = r.sp as u32;
            c.iregs[11] = r.fp as u32;
            c.iregs[7] = r.fp as u32;
            c.iregs[14] = r.lr as u32;
            c.iregs[4] = rng.next_u32();
            bytes = vec![0u8; 512];
            let n = bytes.pwrite_with(c, 0, se).expect("ctx");
            bytes.truncate(n);
        }
        Arch::Arm64Old => {
            let mut c = md::CONTEXT_ARM64_OLD::default();
            c.context_flags = 0x8000_0000 | 0x3;
            c.pc = r.ip;
            c.sp = r.sp;
            c.iregs[29] = r.fp;
            c.iregs[30] = r.lr;
            c.iregs[19] = rng.next_u64();
            bytes = vec![0u8; 1024];
            let n = bytes.pwrite_with(c, 0, se).expect("ctx");
            bytes.truncate(n);
        }
        Arch::Mips => {
            let mut c = md::CONTEXT_MIPS::default();
            c.context_flags = 0x40000 | 0x7;
            c.epc = r.ip & 0xffff_ffff;
            c.iregs[29] = r.sp & 0xffff_ffff;
            c.iregs[30] = r.fp & 0xffff_ffff;
            c.iregs[31] = r.lr & 0xffff_ffff;
            c.iregs[16] = rng.next_u32() as u64;
            bytes = vec![0u8; 1024];
            let n = bytes.pwrite_with(c, 0, se).expect("ctx");
            bytes.truncate(n);
        }
        Arch::Ppc => {
            use scroll::ctx::SizeWith;
            bytes = vec![0u8; md::CONTEXT_PPC::size_with(&scroll::LE)];
            bytes[0..4].copy_from_slice(&p32(0x2000_0000u32 | 0x3));
            bytes[4..8].copy_from_slice(&p32(r.ip as u32));
            bytes[16..20].copy_from_slice(&p32(r.sp as u32));
        }
        Arch::Ppc64 => {
            use scroll::ctx::SizeWith;
            bytes = vec![0u8; md::CONTEXT_PPC64::size_with(&scroll::LE)];
            bytes[0..8].copy_from_slice(&p64(0x0100_0000u64 | 0x3));
            bytes[8..16].copy_from_slice(&p64(r.ip));
            bytes[32..40].copy_from_slice(&p64(r.sp));
        }
        Arch::Sparc => {
            use scroll::ctx::SizeWith;
            bytes = vec![0u8; md::CONTEXT_SPARC::size_with(&scroll::LE)];
            bytes[0..4].copy_from_slice(&p32(0x1000_0000u32 | 0x3));
            bytes[120..128].copy_from_slice(&p64(r.sp));
            bytes[272..280].copy_from_slice(&p64(r.ip));
        }
        Arch::Arm64 => {
            let mut c = md::CONTEXT_ARM64::default();
            c.context_flags = 0x40001f;
            c.pc = r.ip;
            c.sp = r.sp;
            c.iregs[29] = r.fp;
            c.iregs[30] = r.lr;
            c.iregs[19] = rng.next_u64();
            bytes = vec![0u8; 1024];
            let n = bytes.pwrite_with(c, 0, se).expect("ctx");
            bytes.truncate(n);
        }
    }
    Section::with_endian(Endian::Little).append_bytes(&bytes)
}

thread_local! {
    static BIG_ENDIAN: std::cell::Cell<bool> = const { std::cell::Cell::new(false) };
}

fn put_word(stack: &mut [u8], off: usize, w: u64, val: u64) {
    let be = BIG_ENDIAN.with(|b| b.get());
    if w == 4 {
        if off + 4 <= stack.len() {
            let v = val as u32;
            stack[off..off + 4].copy_from_slice(&if be { v.to_be_bytes() } else { v.to_le_bytes() });
        }
    } else if off + 8 <= stack.len() {
        stack[off..off + 8].copy_from_slice(&if be { val.to_be_bytes() } else { val.to_le_bytes() });
    }
}

const PROC_LIMITS_FULL: &str = "Limit                     Soft Limit           Hard Limit           Units     \nMax cpu time              unlimited            unlimited            seconds   \nMax file size             unlimited            unlimited            bytes     \nMax stack size            8388608              unlimited            bytes     \nMax core file size        0                    unlimited            bytes     \nMax processes             111064               111064               processes \nMax open files            1048576              1048576              files     \nMax nice priority         0                    0                    \nMax realtime timeout      unlimited            unlimited            us        \n";

pub fn gen_world(opts: &WorldOpts) -> World {
    let arch = if opts.focus_unwind_expr && chance("dump.arch.focus_x86", 1, 3) {
        Arch::X86
    } else {
        draw_arch(opts)
    };
    // 32-bit x86 dumps are mostly Windows dumps (and STACK WIN records only exist there)
    let mut os = [OsKind::Windows, OsKind::Linux, OsKind::MacOs, OsKind::Android, OsKind::Ios, OsKind::Windows, OsKind::Windows, OsKind::Windows][ch("dump.os", if arch == Arch::X86 { 8 } else { 5 }) as usize];
    if opts.focus_unwind_expr && arch == Arch::X86 {
        os = OsKind::Windows;
    }
    let w = arch.word();
    // big-endian dumps: natural for ppc / sparc / mips, occasionally for the others
    let be = opts.all_archs
        && match arch {
            Arch::Ppc | Arch::Ppc64 | Arch::Sparc | Arch::Mips => chance("dump.big_endian", 1, 2),
            _ => chance("dump.big_endian.rare", 1, 16),
        };
    BIG_ENDIAN.with(|b| b.set(be));
    if be {
        probe("e4.big_endian");
    }
    let e = if be { Endian::Big } else { Endian::Little };
    let adv = opts.adversarial;

    symgen::FORCE_WEIRD.with(|f| f.set(opts.focus_unwind_expr));
    if opts.focus_unwind_expr {
        probe("e4.focus_unwind_expr");
    }
    // modules
    let nmods = if opts.focus_unwind_expr { 1 + ch("dump.nmods.focus", 2) as usize } else { 1 + ch("dump.nmods", 6) as usize };
    let mut modules: Vec<ModSpec> = Vec::new();
    for i in 0..nmods {
        let mut leaf = LEAVES[ch("dump.mod.leaf", LEAVES.len() as u32) as usize];
        let mut dir = DIRS[ch("dump.mod.dir", DIRS.len() as u32) as usize];
        // adversarial (and not where the symbol server path is derived from the name): a module
        // without a name, or whose name is only separators / dots
        if adv && !opts.need_debug_ids && chance("dump.mod.odd_name", 1, 8) {
            probe("e4.module_odd_name");
            (dir, leaf) = [("", ""), ("/", ""), ("C:\\", ""), ("", "."), ("", ".."), ("\\\\", ""), ("", " ")][ch("dump.mod.odd_name.which", 7) as usize];
        }
        let size = [0x8000u32, 0x2000, 0x20000, 0x1000][ch("dump.mod.size", 4) as usize];
        // HTTP configurations: every module has a known server path; a Windows module may still
        // lack its CodeView record, in which case the supplier asks the server for the debug
        // file / id by code file + code id (302 redirect)
        let code_lookup = opts.need_debug_ids && os == OsKind::Windows && chance("dump.mod.code_lookup", 1, 4);
        let has_cv = (opts.need_debug_ids && !code_lookup) || (!opts.need_debug_ids && !chance("dump.mod.nocv", 1, 6));
        let debug_leaf = if leaf.ends_with(".dll") || leaf.ends_with(".exe") { format!("{}.pdb", &leaf[..leaf.len() - 4]) } else { leaf.to_string() };
        let mut m = ModSpec {
            code_file: format!("{dir}{leaf}"),
            base: module_base(arch, i),
            size,
            debug_file: if chance("dump.mod.debugdir", 1, 3) { format!("{dir}{debug_leaf}") } else { debug_leaf },
            guid: (0x5A98_0000 + i as u32, 0x2872, 0x41C1, [0x83, 0x8E, 0xD9, 0x89, 0x14, 0xE9, 0xB7, i as u8]),
            age: 1 + (i as u32 % 3),
            has_cv,
            sym: None,
            rel: None,
            sym_kind: "none",
            hot: Vec::new(),
            elf_build_id: false,
            code_lookup: false,
        };
        m.code_lookup = code_lookup;
        if has_cv || code_lookup {
            let l = crate::common::leaf(&m.debug_file).to_string();
            let symname = if l.to_lowercase().ends_with(".pdb") { format!("{}.sym", &l[..l.len() - 4]) } else { format!("{l}.sym") };
            m.rel = Some(format!("{}/{}/{}", l, m.breakpad_id(), symname));
        }
        if has_cv && !opts.need_debug_ids && os.is_linuxish() && chance("dump.mod.elf_build_id", 1, 2) {
            // (the HTTP configurations keep PDB70 records: their server script is keyed by the
            // GUID-derived path)
            m.elf_build_id = true;
            m.rel = None;
        }
        // what the symbol supply has for it
        let kind = ch("dump.sym.kind", 8);
        match kind {
            0..=4 => {
                let (b, hot) = module_symbols(arch, os, &m, adv);
                m.sym = Some(b);
                m.hot = hot;
                m.sym_kind = if chance("dump.sym.transient_load_error", 1, 8) { "transient load error" } else { "consistent" };
            }
            5 if opts.hostile_symbols && chance("dump.sym.load_error", 1, 2) => {
                // the supplier fails to read this module's symbols (I/O error)
                m.sym = None;
                m.sym_kind = "load error";
            }
            5 => {
                m.sym = None;
                m.sym_kind = "absent";
            }
            6 if opts.hostile_symbols => {
                let (mut b, hot) = module_symbols(arch, os, &m, adv);
                m.hot = hot;
                if chance("dump.sym.long_line_tail", 1, 4) {
                    // a line above the parser's 160 KiB cap somewhere among the records, and
                    // (mostly) a last line without its newline: the recovery path of the
                    // streaming parser meets the end of the input
                    let len = range("dump.sym.long_line.len", 163_000, 420_000) as usize;
                    let mut long: Vec<u8> = b"PUBLIC 1000 0 ".to_vec();
                    long.resize(len, b'L');
                    long.push(b'\n');
                    let nl: Vec<usize> = b.iter().enumerate().filter(|(_, &c)| c == b'\n').map(|(i, _)| i + 1).collect();
                    let at = match ch("dump.sym.long_line.where", 3) {
                        // right before the last line: its newline comes with the last buffer fill
                        0 if nl.len() >= 2 => nl[nl.len() - 2],
                        1 if !nl.is_empty() => nl[range("dump.sym.long_line.at", 0, nl.len() as u64 - 1) as usize],
                        _ => b.len(),
                    };
                    b.splice(at..at, long);
                    if !chance("dump.sym.long_line.terminated", 1, 4) {
                        while matches!(b.last(), Some(b'\n') | Some(b'\r')) {
                            b.pop();
                        }
                        if chance("dump.sym.long_line.extra_tail", 1, 2) {
                            b.extend_from_slice(b"\nPUBLIC 2000 0 unterminated_tail");
                        }
                    }
                } else {
                    symgen::corrupt(&mut b);
                }
                m.sym = Some(b);
                m.sym_kind = "corrupted";
            }
            7 if opts.hostile_symbols => {
                let mut o = symgen::SymOpts::default();
                o.max_records = 30;
                let doc = symgen::gen_doc(&o);
                let (b, _) = symgen::render(&doc, symgen::draw_eol(), !chance("dump.sym.unterminated", 1, 8));
                m.sym = Some(b);
                m.sym_kind = "random grammar";
            }
            _ => {
                let (b, hot) = module_symbols(arch, os, &m, adv);
                m.sym = Some(b);
                m.hot = hot;
                m.sym_kind = "consistent";
            }
        }
        modules.push(m);
    }
    // twins: two modules with one debug identity (the same PDB70 record) under different file
    // names — one binary mapped or copied under two names.  They are distinct modules (own
    // lookups, own statistics); where the symbol supply is keyed by the debug identity (HTTP)
    // they get the same symbol file.
    if modules.len() >= 2 && chance("dump.mod.twin", 1, 5) {
        let j = modules.len() - 1;
        if modules[0].has_cv && modules[j].has_cv && !modules[0].elf_build_id && !modules[j].elf_build_id && !modules[0].code_lookup && !modules[j].code_lookup && modules[0].code_file != modules[j].code_file {
            probe("e4.twin_modules");
            let (df, guid, age, rel) = (modules[0].debug_file.clone(), modules[0].guid, modules[0].age, modules[0].rel.clone());
            let m = &mut modules[j];
            m.debug_file = df;
            m.guid = guid;
            m.age = age;
            m.rel = rel;
            if opts.need_debug_ids {
                let (sym, kind, hot) = (modules[0].sym.clone(), modules[0].sym_kind, modules[0].hot.clone());
                let m = &mut modules[j];
                m.sym = sym;
                m.sym_kind = kind;
                m.hot = hot;
            }
        }
    }
    // adversarial: the last module sits at the very top of the address space
    if adv && chance("dump.mod.top_of_space", 1, 6) {
        let m = modules.last_mut().unwrap();
        let top: u64 = if w == 4 && chance("dump.mod.top32", 1, 2) { 0x1_0000_0000 } else { 0 };
        m.base = match ch("dump.mod.top_kind", 4) {
            0 => top.wrapping_sub(m.size as u64).wrapping_sub(1), // end == 2^64-1 (or 2^32-1) exactly
            1 => top.wrapping_sub(m.size as u64),                 // base + size == 2^64: wraps to 0
            2 => top.wrapping_sub(m.size as u64 / 2),             // base + size overflows
            _ => top.wrapping_sub(m.size as u64).wrapping_sub(2),
        };
        probe("e4.module_top_of_space");
    }

    // threads
    let nthreads = if opts.focus_unwind_expr {
        1 + ch("dump.nthreads.focus", 2) as usize
    } else if opts.many_threads && chance("dump.many_threads", 1, 12) {
        probe("e4.many_threads");
        31 + ch("dump.nthreads.many", 10) as usize
    } else {
        1 + ch("dump.nthreads", opts.max_threads.max(1)) as usize
    };
    if nthreads >= 2 {
        probe("e4.multi_thread_world");
    }
    let mut synth = SynthMinidump::with_endian(e);
    let mut sysinfo = SystemInfo::new(e).set_processor_architecture(arch.processor_architecture()).set_platform_id(os.platform_id());
    sysinfo.major_version = 10;
    sysinfo.minor_version = ch("dump.os.minor", 4);
    sysinfo.build_number = 19041;
    if os.is_linuxish() && chance("dump.os.zero_version", 1, 2) {
        // breakpad's Linux writer leaves the numeric version at 0.0.0 and puts `uname` into the
        // build string
        sysinfo.major_version = 0;
        sysinfo.minor_version = 0;
        sysinfo.build_number = 0;
    }
    const CSD: [&str; 10] = [
        "Linux 5.15.0-91-generic #101-Ubuntu SMP Tue Nov 14 13:30:08 UTC 2023 x86_64 GNU/Linux",
        "Linux 5.15.0-91-generic Linux/GNU",
        "Linux 0.0.0 Linux/GNU",
        "Linux",
        "",
        "a b",
        "Service Pack 2",
        "Linux 6.1 x86_64 Linux/GNU",
        "  ",
        "Linux \u{fc}ber.1.2 #1 GNU/Linux",
    ];
    let csd = if chance("dump.os.csd", 2, 3) { Some(CSD[ch("dump.os.csd.which", 10) as usize]) } else { None };
    sysinfo.number_of_processors = 4;
    // the 24-byte CPU union (x86: vendor id, version, feature words; ARM: cpuid and ELF hwcaps;
    // others: feature bit sets): mostly a plausible x86-style content, otherwise drawn words
    if chance("dump.cpu_union", 1, 2) {
        probe("e4.cpu_union_drawn");
        let mut word = |site: &'static str| -> u32 {
            match ch(site, 6) {
                0 => 0,
                1 => u32::MAX,
                2 => 0x0038_0000, // bits 19..21
                3 => 0x8000_0001,
                _ => simkit::blob("dump.cpu_union.word", 4).iter().fold(0u32, |a, &b| (a << 8) | b as u32),
            }
        };
        sysinfo.cpu = minidump_synth::CpuInfo::X86CpuInfo {
            vendor_id: [word("dump.cpu_union.w0"), word("dump.cpu_union.w1"), word("dump.cpu_union.w2")],
            version_information: word("dump.cpu_union.w3"),
            feature_information: word("dump.cpu_union.w4"),
            amd_extended_cpu_features: word("dump.cpu_union.w5"),
        };
    }
    synth = synth.add_system_info(sysinfo);

    let mut threads: Vec<ThreadSpec> = Vec::new();
    let mut total_stack_bytes = 0u64;
    let use_mem64 = chance("dump.mem64", 1, 6);
    let mut memories64: Vec<Memory> = Vec::new();
    let mut regions: Vec<(u64, u64)> = Vec::new();
    for t in 0..nthreads {
        let seed = ch("dump.thread.seed", u32::MAX) as u64;
        let mut rng = Xoshiro::new(seed);
        let sbase = stack_base(arch, t);
        let mut slen = [0x200usize, 0x80, 0x1000, 0x40, 0x2000, 0][ch("dump.stack.len", if adv { 6 } else { 5 }) as usize];
        if nthreads > 8 {
            // keep the worst case (every thread walked to its cap, rendered four times) well
            // below the harness's hard allocation cap
            slen = slen.min(0x200);
        }
        let mut stack = vec![0u8; slen];
        let nwords = slen / w as usize;
        let focus = opts.focus_unwind_expr;
        let pick_ret = |rng: &mut Xoshiro| -> u64 {
            let m = &modules[rng.below(modules.len() as u32) as usize];
            if !m.hot.is_empty() && (focus || rng.below(3) == 0) {
                return m.base.wrapping_add(m.hot[rng.below(m.hot.len() as u32) as usize] + 2 + (rng.below(8) as u64 & !1));
            }
            m.base.wrapping_add(0x1000 + (rng.below((m.size.saturating_sub(0x1000)).max(1)) as u64 & !3) + 2)
        };
        // random but plausible words
        for i in 0..nwords {
            let cat = rng.below(10);
            let val = match cat {
                0..=2 => pick_ret(&mut rng),
                3 | 4 => sbase + ((i as u64 + 1 + rng.below(24) as u64) * w).min(slen as u64),
                5 => rng.below(256) as u64,
                6 => 0,
                _ => rng.next_u64(),
            };
            put_word(&mut stack, i * w as usize, w, val);
        }
        // shape
        let shape_n = if adv { 8 } else { 4 };
        let shape = ch("dump.thread.shape", shape_n);
        let mut r = Regs {
            ip: pick_ret(&mut rng),
            sp: sbase + (rng.below(4) as u64) * w,
            fp: 0,
            lr: pick_ret(&mut rng),
            near: None,
        };
        match rng.below(6) {
            0..=2 => r.near = Some(sbase + (slen as u64 / 2 & !7)),
            // into the (optional) no-access memory-info region at the very top of the address space
            3 if adv => r.near = Some(u64::MAX - 0x8ff),
            // into the (optional) no-access null page
            4 if adv => r.near = Some(0x10),
            _ => {}
        }
        let shape_name: &'static str;
        match shape {
            0 | 1 => {
                // explicit frame-pointer chain
                shape_name = "frame-pointer chain";
                let depth = 1 + rng.below(10) as usize;
                let mut at = (2 + rng.below(4) as usize) * w as usize;
                r.fp = sbase + at as u64;
                for _ in 0..depth {
                    let next = at + (2 + rng.below(6) as usize) * w as usize;
                    if next + 2 * w as usize > slen {
                        put_word(&mut stack, at, w, 0);
                        put_word(&mut stack, at + w as usize, w, pick_ret(&mut rng));
                        break;
                    }
                    put_word(&mut stack, at, w, sbase + next as u64);
                    put_word(&mut stack, at + w as usize, w, pick_ret(&mut rng));
                    at = next;
                }
            }
            2 => {
                shape_name = "random words (cfi / scan)";
                r.fp = sbase + (rng.below(nwords.max(1) as u32) as u64) * w;
            }
            3 => {
                shape_name = "ip outside modules";
                r.ip = rng.next_u64() >> if w == 4 { 32 } else { 16 };
                r.fp = sbase + 4 * w;
            }
            4 => {
                shape_name = "cyclic frame pointer";
                let at = 2 * w as usize;
                r.fp = sbase + at as u64;
                put_word(&mut stack, at, w, sbase + at as u64);
                put_word(&mut stack, at + w as usize, w, pick_ret(&mut rng));
            }
            5 => {
                shape_name = "descending frame pointer";
                let at = (nwords / 2).max(3) * w as usize;
                r.fp = sbase + at as u64;
                put_word(&mut stack, at, w, sbase + at as u64 - 2 * w);
                put_word(&mut stack, at + w as usize, w, pick_ret(&mut rng));
            }
            6 => {
                shape_name = "sp extreme";
                r.sp = [0u64, 4, 7, u64::MAX - 7, u64::MAX, sbase + slen as u64, sbase.wrapping_sub(8), if w == 4 { 0xffff_fffc } else { u64::MAX - 15 }][rng.below(8) as usize];
                r.fp = [0u64, u64::MAX - 7, sbase, r.sp][rng.below(4) as usize];
            }
            _ => {
                shape_name = "fp extreme";
                r.fp = [u64::MAX - 3, u64::MAX - 7, u64::MAX - 15, (sbase + slen as u64).wrapping_sub(w), 1, if w == 4 { 0xffff_fff8 } else { u64::MAX - 8 }, u64::MAX - 17, u64::MAX - 20, u64::MAX - 24, u64::MAX - 33][rng.below(10) as usize];
            }
        }
        let id = if adv && t > 0 && chance("dump.thread.dup_id", 1, 12) { 0x1000 + (t as u32 - 1) } else { 0x1000 + t as u32 };
        let mem_addr = if adv && chance("dump.stack.top_of_space", if w == 4 { 3 } else { 1 }, 16) {
            // stack at the very top of the address space
            let top = if w == 4 { 0x1_0000_0000u64 } else { 0 };
            let a = top.wrapping_sub(slen as u64);
            r.sp = a;
            // mostly the stack moves as a whole: words that pointed into it (saved frame
            // pointers) still do
            if rng.below(4) != 0 {
                let delta = a.wrapping_sub(sbase);
                let be = BIG_ENDIAN.with(|b| b.get());
                let mut off = 0usize;
                while off + w as usize <= stack.len() {
                    let v = if w == 4 {
                        let b: [u8; 4] = stack[off..off + 4].try_into().unwrap();
                        (if be { u32::from_be_bytes(b) } else { u32::from_le_bytes(b) }) as u64
                    } else {
                        let b: [u8; 8] = stack[off..off + 8].try_into().unwrap();
                        if be { u64::from_be_bytes(b) } else { u64::from_le_bytes(b) }
                    };
                    if v >= sbase && v <= sbase + slen as u64 {
                        put_word(&mut stack, off, w, v.wrapping_add(delta));
                    }
                    off += w as usize;
                }
                if r.fp >= sbase && r.fp <= sbase + slen as u64 {
                    r.fp = r.fp.wrapping_add(delta);
                    if w == 4 {
                        r.fp &= 0xffff_ffff;
                    }
                }
            }
            // and the frame pointer within a few words of the top
            if rng.below(2) == 0 {
                r.fp = top.wrapping_sub(1 + rng.below(48) as u64);
            }
            a
        } else {
            sbase
        };
        let ctx = context_section(arch, &r, &mut rng, be);
        let memory = Memory::with_section(Section::with_endian(e).append_bytes(&stack), mem_addr);
        if use_mem64 {
            // Memory64 regions live in one trailing blob and cannot be cited: the thread's
            // descriptor carries the address only (an empty range), as full dumps do.
            let cite = Memory::with_section(Section::with_endian(e), mem_addr);
            let thread = Thread::new(e, id, &cite, &ctx);
            synth = synth.add_thread(thread).add(ctx).add(cite);
            memories64.push(memory);
        } else {
            let thread = Thread::new(e, id, &memory, &ctx);
            synth = synth.add_thread(thread).add(ctx);
            synth = synth.add_memory(memory);
        }
        total_stack_bytes += slen as u64;
        regions.push((mem_addr, slen as u64));
        threads.push(ThreadSpec {
            id,
            stack_base: mem_addr,
            stack_len: slen,
            ip: r.ip,
            sp: r.sp,
            fp: r.fp,
            lr: r.lr,
            shape: shape_name,
        });
    }
    if adv && !use_mem64 && chance("dump.mem.extra", 1, 4) {
        // extra regions: overlapping a stack, empty, and far away
        let t0 = &threads[0];
        let over = Memory::with_section(Section::with_endian(e).append_repeated(0xAB, 0x30), t0.stack_base.wrapping_add(0x10));
        let empty = Memory::with_section(Section::with_endian(e), t0.stack_base.wrapping_add(0x4000));
        let far = Memory::with_section(Section::with_endian(e).append_repeated(0xCD, 0x20), 0x10);
        let same_start = Memory::with_section(Section::with_endian(e).append_repeated(0xEF, 0x18), t0.stack_base);
        synth = synth.add_memory(over).add_memory(empty).add_memory(far).add_memory(same_start);
        regions.push((t0.stack_base.wrapping_add(0x10), 0x30));
        regions.push((0x10, 0x20));
        regions.push((t0.stack_base, 0x18));
    }
    for m in memories64 {
        synth = synth.add_memory64(m);
    }

    // module list
    for m in &modules {
        let name = DumpString::new(&m.code_file, e);
        let mut sm = SynthModule::new(e, m.base, m.size, &name, 0x5EED_C0DE, 0, None);
        if m.has_cv {
            let mut pdb = m.debug_file.clone().into_bytes();
            pdb.push(0);
            let cv = if m.elf_build_id {
                // ELF build id ("BpEL"): a variable-length identifier instead of GUID + age
                let len = [20usize, 16, 8, 0, 40, 3][(m.age as usize + m.guid.3[7] as usize) % 6];
                let mut id: Vec<u8> = Vec::new();
                for k in 0..len {
                    id.push((m.guid.0 as u8).wrapping_add(k as u8).wrapping_mul(31));
                }
                Section::with_endian(e).D32(md::CvSignature::Elf as u32).append_bytes(&id)
            } else {
                Section::with_endian(e)
                    .D32(md::CvSignature::Pdb70 as u32)
                    .D32(m.guid.0)
                    .D16(m.guid.1)
                    .D16(m.guid.2)
                    .append_bytes(&m.guid.3)
                    .D32(m.age)
                    .append_bytes(&pdb)
            };
            sm = sm.cv_record(&cv);
            synth = synth.add_module(sm).add(name).add(cv);
        } else {
            synth = synth.add_module(sm).add(name);
        }
    }

    // exception
    let mut crashing = None;
    let mut flip_stack: Option<u64> = None;
    let mut crash_in_region0 = false;
    let mut exception_ctx_of: Option<u32> = None;
    if chance("dump.exception", 3, 4) {
        let t = &threads[ch("dump.exception.thread", threads.len() as u32) as usize];
        let mut ex = Exception::new(e);
        ex.thread_id = if adv && chance("dump.exception.badtid", 1, 10) { 0xdead } else { t.id };
        let (code, flags) = match os {
            OsKind::Windows => ([0xC000_0005u32, 0x8000_0003, 0xC000_001D, 0xC000_0409, 0xE06D_7363][ch("dump.exc.win", 5) as usize], 0),
            OsKind::Linux | OsKind::Android => ([11u32, 6, 4, 7, 8][ch("dump.exc.linux", 5) as usize], ch("dump.exc.linux.flags", 4)),
            _ => ([1u32, 2, 3, 6, 10][ch("dump.exc.mac", 5) as usize], [1u32, 2, 13, 0x101][ch("dump.exc.mac.flags", 4) as usize]),
        };
        // mostly well-known codes; sometimes anything
        let (code, flags) = if chance("dump.exc.random_code", 1, 5) {
            (simkit::blob("dump.exc.code_blob", 4).iter().fold(0u32, |a, &b| (a << 8) | b as u32), ch("dump.exc.random_flags", 1 << 16))
        } else {
            (code, flags)
        };
        ex.exception_record.exception_code = code;
        ex.exception_record.exception_flags = flags;
        let addr = match ch("dump.exc.addr", 8) {
            0 => 0,
            1 => t.sp.wrapping_sub(8),
            2 => t.ip,
            3 => u64::MAX,
            4 => 0x8000_0000_0000,
            5 => 0x80400,
            _ => {
                // one flipped bit away from the middle of the crashing thread's stack
                flip_stack = Some(t.stack_base);
                (t.stack_base + (t.stack_len as u64 / 2 & !7)) ^ (1u64 << ch("dump.exc.flipbit", if w == 4 { 32 } else { 48 }))
            }
        };
        ex.exception_record.exception_address = addr;
        // (an access violation mostly comes with its two parameters and a real access type, so
        // that the analyses which compare the access with the memory map have something to do)
        ex.exception_record.number_parameters = if adv { ch("dump.exc.nparams", 16) } else { [2u32, 2, 2, 0, 1][ch("dump.exc.nparams", 5) as usize] };
        ex.exception_record.exception_information[0] = [0u64, 1, 8, 0, 1, 8, 2, 3, 7][ch("dump.exc.info0", 9) as usize];
        crash_in_region0 = addr == 0x80400;
        ex.exception_record.exception_information[1] = addr;
        ex.exception_record.exception_information[2] = 0xC000_0005;
        synth = synth.add_exception(ex);
        crashing = Some(t.id);
        if !chance("dump.exc.no_context", 1, 8) {
            exception_ctx_of = Some(t.id);
        }
        // code bytes at the crashing ip (for instruction analysis on amd64)
        if chance("dump.exc.code_memory", 2, 3) {
            const SNIPPETS: [&[u8]; 38] = [
                &[0x62, 0xf1, 0x7c, 0x49, 0x11, 0x00],             // vmovups [rax]{k1}, zmm0
                &[0x62, 0xf1, 0x7c, 0x49, 0x10, 0x00],             // vmovups zmm0{k1}, [rax]
                &[0x62, 0xf1, 0xfd, 0x4a, 0x7f, 0x03],             // vmovdqa64 [rbx]{k2}, zmm0
                &[0x62, 0xf2, 0x7d, 0x49, 0xa0, 0x04, 0x08],       // vpscatterdd [rax+zmm1]{k1}, zmm0
                &[0xc4, 0xe2, 0x79, 0x2e, 0x00],                   // vmaskmovps [rax], xmm0, xmm0
                &[0x66, 0x0f, 0x38, 0xf6, 0x00],                   // adcx eax, [rax]
                &[0x48, 0x8b, 0x05, 0x10, 0x00, 0x00, 0x00],       // mov rax, [rip+0x10]
                &[0xff, 0x15, 0xf0, 0xff, 0xff, 0xff],             // call [rip-0x10]
                &[0x65, 0x48, 0x8b, 0x00],                         // mov rax, gs:[rax]
                &[0x48, 0x8b, 0x84, 0xc8, 0xff, 0xff, 0xff, 0x7f], // mov rax, [rax+rcx*8+0x7fffffff]
                &[0x48, 0x8d, 0x04, 0x0b],                         // lea rax, [rbx+rcx]
                &[0xff, 0x20],                                     // jmp [rax]
                &[0x38, 0x07],                                     // cmp [rdi], al
                &[0x48, 0xff, 0x00],                               // inc qword [rax]
                &[0x8f, 0x00],                                     // pop [rax]
                &[0x0f, 0x2e, 0x00],                               // ucomiss xmm0, [rax]
                &[0x48, 0xf7, 0x33],                               // div qword [rbx]
                &[0xf3, 0xa4],                                     // rep movsb
                &[0xf3, 0x48, 0xab],                               // rep stosq
                &[0x48, 0x01, 0x18],                               // add [rax], rbx
                &[0x48, 0x2b, 0x04, 0x24],                         // sub rax, [rsp]
                &[0xc5, 0xf8, 0x28, 0x00],                         // vmovaps xmm0, [rax]
                &[0xcb],                                           // retf
                &[0x48, 0x8b, 0x04, 0x0b],             // mov rax, [rbx+rcx]
                &[0x89, 0x04, 0xb3],                   // mov [rbx+rsi*4], eax
                &[0x4a, 0x03, 0x04, 0x02],             // add rax, [rdx+r8]
                &[0x48, 0x39, 0x0c, 0x18],             // cmp [rax+rbx], rcx
                &[0x4b, 0x8b, 0x44, 0x0d, 0x10],       // mov rax, [r13+r9+0x10]
                &[0x50],                               // push rax
                &[0xe8, 0x00, 0x01, 0x00, 0x00],       // call rel32
                &[0x48, 0x89, 0x18],                   // mov [rax], rbx
                &[0x48, 0x8b, 0x04, 0xc8],             // mov rax, [rax+rcx*8]
                &[0xff, 0x10],                         // call [rax]
                &[0xc3],                               // ret
                &[0xa4],                               // movsb
                &[0xf3, 0x48, 0xa5],                   // rep movsq
                &[0x0f, 0x0b],                         // ud2
                &[0x48, 0xff, 0x74, 0x24, 0x08],       // push [rsp+8]
            ];
            // a third of the time one of the forms with two address registers (base + index):
            // both registers go through the bit-flip analysis, in whatever order they are kept
            let mut code = if chance("dump.exc.two_reg", 1, 3) {
                SNIPPETS[[3usize, 17, 18, 19, 20, 21][ch("dump.exc.two_reg.which", 6) as usize]].to_vec()
            } else {
                SNIPPETS[ch("dump.exc.snippet", 38) as usize].to_vec()
            };
            if chance("dump.exc.structured_random", 1, 5) {
                // prefixes + opcode + modrm/sib/disp drawn at random: breadth over the decoder
                const PRE: [&[u8]; 12] = [&[], &[0x66], &[0xf2], &[0xf3], &[0x48], &[0x4c], &[0x0f], &[0x48, 0x0f], &[0xc5, 0xf8], &[0xc4, 0xe2, 0x79], &[0x62, 0xf1, 0x7c, 0x49], &[0x65, 0x48]];
                code = PRE[ch("dump.exc.sr.prefix", 12) as usize].to_vec();
                code.extend_from_slice(&simkit::blob("dump.exc.sr.tail", 11));
            }
            if chance("dump.exc.random_code_bytes", 1, 6) {
                code = simkit::blob("dump.exc.codeblob", 15);
            }
            code.extend_from_slice(&simkit::blob("dump.exc.codetail", 15));
            if !use_mem64 {
                regions.push((t.ip, code.len() as u64));
                synth = synth.add_memory(Memory::with_section(Section::with_endian(e).append_bytes(&code), t.ip));
            }
        }
    }

    // optional streams (swarm)
    let streams = ch("dump.streams", 256);
    let mut has_proc_limits = false;
    if streams & 1 != 0 {
        let n1 = DumpString::new("main thread", e);
        let n2 = DumpString::new("worker \u{1f980}", e);
        synth = synth.add_thread_name(ThreadName::new(e, threads[0].id, Some(&n1))).add(n1);
        if threads.len() > 1 {
            synth = synth.add_thread_name(ThreadName::new(e, threads[1].id, if adv && chance("dump.tname.bad", 1, 4) { None } else { Some(&n2) })).add(n2);
        }
    }
    if streams & 2 != 0 {
        // unloaded modules, some overlapping live frames' addresses
        let n = DumpString::new("unloaded.dll", e);
        let n2 = DumpString::new("unloaded.dll", e);
        let t0 = &threads[0];
        synth = synth
            .add_unloaded_module(UnloadedModule::new(e, t0.ip & !0xfff, 0x4000, &n, 0x1234, 0))
            .add(n)
            .add_unloaded_module(UnloadedModule::new(e, (t0.ip & !0xfff).wrapping_sub(0x1000), 0x3000, &n2, 0x1235, 0))
            .add(n2);
    }
    if streams & 4 != 0 {
        let mut misc = MiscStream::new(e);
        misc.process_id = Some([4242u32, 0, u32::MAX, 1][ch("dump.misc.pid", 4) as usize]);
        if chance("dump.misc.times", 1, 2) {
            let t = [1_600_000_000u32, 0, u32::MAX, 0x7fff_ffff, 1][ch("dump.misc.create_time", 5) as usize];
            misc.process_times = Some(minidump_synth::MiscFieldsProcessTimes {
                process_create_time: t,
                process_user_time: [0u32, 5, u32::MAX][ch("dump.misc.user_time", 3) as usize],
                process_kernel_time: [0u32, 7, u32::MAX][ch("dump.misc.kernel_time", 3) as usize],
            });
        }
        if chance("dump.misc.power", 1, 3) {
            misc.power_info = Some(minidump_synth::MiscFieldsPowerInfo {
                processor_max_mhz: 3000,
                processor_current_mhz: [2500u32, 0, u32::MAX][ch("dump.misc.mhz", 3) as usize],
                processor_mhz_limit: 3000,
                processor_max_idle_state: 2,
                processor_current_idle_state: 1,
            });
        }
        if chance("dump.misc.integrity", 1, 3) {
            misc.process_integrity_level = Some([0x2000u32, 0, u32::MAX][ch("dump.misc.integrity_level", 3) as usize]);
            misc.process_execute_flags = Some(ch("dump.misc.exec_flags", 4));
            misc.protected_process = Some(ch("dump.misc.protected", 2));
        }
        synth = synth.add_stream(misc);
        // now and then the directory lists a second stream of the same type with other content
        // (the reader documents "the last one is used")
        if chance("dump.dup_stream.misc", 1, 6) {
            probe("e4.duplicate_stream");
            let mut misc2 = MiscStream::new(e);
            misc2.process_id = Some(9999);
            synth = synth.add_stream(misc2);
        }
    }
    if streams & 8 != 0 || flip_stack.is_some() || crash_in_region0 {
        // memory info list, with extreme ranges when adversarial
        let regions: [(u64, u64, u32); 9] = [
            (0x80000, 0x80000, 0x04),
            (flip_stack.unwrap_or(t_sp(&threads[0])) & !0xfff, 0x4000, if flip_stack.is_some() { 0x04 } else { 0x104 }),
            (u64::MAX - 0xfff, 0x1000, 0x01),
            (0x7000_0000_0000, u64::MAX, 0x20),
            (0, 0x1000, 0x01),
            (0x81000, 0, 0x01),
            (0, 0, 0x01),
            (u64::MAX, 0, 0x04),
            (u64::MAX, 1, 0x04),
        ];
        for (i, (base, size, prot)) in regions.iter().enumerate() {
            if i >= 2 && !(adv && chance("dump.meminfo.extreme", 1, 2)) {
                continue;
            }
            // now and then a region is described twice, with the same range and different
            // attributes (committed and accessible / free and inaccessible), in either order:
            // whichever description the reader keeps must not depend on anything but the file
            let twin = i < 2 && chance("dump.meminfo.twin", if (i == 1 && flip_stack.is_some()) || (i == 0 && crash_in_region0) { 2 } else { 1 }, 3);
            let twin_first = twin && chance("dump.meminfo.twin_first", 1, 2);
            if twin && twin_first {
                probe("e4.meminfo_twin");
                synth = synth.add_memory_info(MemoryInfo::new(e, *base, *base, 0x01, *size, 0x10000, 0x01, 0));
            }
            synth = synth.add_memory_info(MemoryInfo::new(e, *base, *base, *prot, *size, 0x1000, *prot, 0x20000));
            if twin && !twin_first {
                probe("e4.meminfo_twin");
                synth = synth.add_memory_info(MemoryInfo::new(e, *base, *base, 0x01, *size, 0x10000, 0x01, 0));
            }
        }
    }
    if streams & 16 != 0 && os == OsKind::Windows && chance("dump.handles.v2", 1, 2) {
        probe("e4.handle_stream");
        probe("e4.handle_stream_v2");
        synth = synth.add_stream(handle_stream_v2(e, adv));
    } else if streams & 16 != 0 && os == OsKind::Windows {
        probe("e4.handle_stream");
        let tn = DumpString::new("File", e);
        let on = DumpString::new("\\Device\\HarddiskVolume1\\x", e);
        synth = synth
            .add_handle_descriptor(HandleDescriptor::new(e, 4, Some(&tn), Some(&on), 0, 0x12019f, 2, 65))
            .add(tn)
            .add(on)
            .add_handle_descriptor(HandleDescriptor::new(e, 8, None, None, 0, 0, 0, 0));
    }
    if os.is_linuxish() {
        if streams & 32 != 0 {
            has_proc_limits = true;
            probe("e4.proc_limits");
            let mut text = PROC_LIMITS_FULL.to_string();
            if adv {
                match ch("dump.limits.shape", 6) {
                    0 => {}
                    1 => text.push_str("Max\n"),
                    2 => text.push_str("Max weird\n"),
                    3 => text = "Limit Soft Hard Units\nx\n\n  \nMax open files   \n".to_string(),
                    4 => text.push_str("Max open files            notanumber              1048576              files     \n"),
                    _ => text = text.replace("  ", " "),
                }
            }
            synth = synth.set_linux_proc_limits(text.as_bytes());
        }
        if streams & 64 != 0 {
            // key/value text streams; keys may repeat with different values (several CPU blocks,
            // duplicated lines): whatever the reader picks must not depend on anything but the text
            let mut lsb = String::from("DISTRIB_ID=\"Ubuntu\"\nDISTRIB_RELEASE=22.04\nDISTRIB_CODENAME=jammy\nDISTRIB_DESCRIPTION=\"Ubuntu 22.04\"\n");
            if chance("dump.lsb.dups", 1, 3) {
                lsb.push_str("DISTRIB_ID=Debian\nID=arch\nDISTRIB_RELEASE=12\nVERSION_ID=\"rolling\"\nPRETTY_NAME=Other\n");
            }
            let ncpu = 1 + ch("dump.cpuinfo.blocks", 4);
            let mut cpuinfo = String::new();
            for c in 0..ncpu {
                let mc = if chance("dump.cpuinfo.same_microcode", 1, 2) { 0xde } else { 0xde + 12 * c as u64 };
                cpuinfo.push_str(&format!("processor : {c}\nmicrocode : {:#x}\nmodel name : Sim CPU {c}\n\n", mc));
            }
            let mut status = String::from("Name:\tapp\nPid:\t3747\nUid:\t1000\n");
            if chance("dump.status.dups", 1, 3) {
                status.push_str("Pid:\t4242\nName:\tother\nPid:\tnotanumber\n");
            }
            synth = synth
                .set_linux_lsb_release(lsb.as_bytes())
                .set_linux_cpu_info(cpuinfo.as_bytes())
                .set_linux_proc_status(status.as_bytes())
                .set_linux_environ(b"HOME=/home/u\0PATH=/bin\0HOME=/root\0");
            if chance("dump.dup_stream.lsb", 1, 6) {
                probe("e4.duplicate_stream");
                synth = synth.add_stream(SimpleStream {
                    stream_type: md::MINIDUMP_STREAM_TYPE::LinuxLsbRelease as u32,
                    section: Section::with_endian(e).append_bytes(b"DISTRIB_ID=\"Second\"\nDISTRIB_RELEASE=1.0\nDISTRIB_CODENAME=dup\nDISTRIB_DESCRIPTION=\"Second 1.0\"\n"),
                });
            }
        }
        if streams & 128 != 0 {
            let mut maps = String::new();
            for m in &modules {
                maps.push_str(&format!("{:x}-{:x} r-xp 00000000 08:01 123 {}\n", m.base, m.base.wrapping_add(m.size as u64), m.code_file));
            }
            maps.push_str(&format!("{:x}-{:x} rw-p 00000000 00:00 0 [stack]\n", threads[0].stack_base, threads[0].stack_base.wrapping_add(threads[0].stack_len as u64)));
            if adv {
                maps.push_str("garbage line\nffffffffffffffff-0 ---p 0 0:0 0\n");
            }
            synth = synth.set_linux_maps(maps.as_bytes());
        }
    }
    if matches!(os, OsKind::MacOs | OsKind::Ios) && chance("dump.mac_streams", 1, 2) {
        probe("e4.mac_streams");
        synth = synth.add_stream(mac_crash_info_stream(e, adv)).add_stream(mac_bootargs_stream(e, adv));
    }
    let uses_breakpad_info = chance("dump.breakpad_info", 1, 4);
    if uses_breakpad_info {
        // BreakpadInfo: validity, dump_thread_id, requesting_thread_id
        let sec = Section::with_endian(e).D32(3).D32(threads.last().unwrap().id).D32(threads[0].id);
        synth = synth.add_stream(SimpleStream {
            stream_type: md::MINIDUMP_STREAM_TYPE::BreakpadInfoStream as u32,
            section: sec,
        });
    }
    if adv && chance("dump.soft_errors", 1, 8) {
        synth = synth.set_soft_errors("[{\"InitErrors\": [{\"StopProcessFailed\": {\"Stop\": \"EPERM\"}}]}]");
    }

    if let Some(c) = csd {
        synth = synth.add(DumpString::new(&format!("\u{1}CSD\u{1}{c}"), e));
    }
    let mut dump = synth.finish().expect("synth dump");
    if let Some(tid) = exception_ctx_of {
        patch_exception_context(&mut dump, tid);
    }
    if let Some(c) = csd {
        patch_csd_version(&mut dump, c);
    }
    if adv && chance("dump.tail_string", 1, 6) {
        tail_string(&mut dump);
    }
    if os == OsKind::Windows && chance("dump.teb", 1, 2) {
        // thread environment blocks: inside the thread's own stack, at its very end, or far off
        let tebs: Vec<u64> = threads
            .iter()
            .map(|t| match ch("dump.teb.kind", 5) {
                0 => t.stack_base,
                1 => t.stack_base.wrapping_add(t.stack_len as u64).wrapping_sub(8),
                2 => u64::MAX - 0x20,
                3 => 0,
                _ => t.stack_base.wrapping_add(t.stack_len as u64 / 2),
            })
            .collect();
        patch_thread_tebs(&mut dump, &tebs);
    }
    let describe = json!({
        "arch": arch.name(),
        "os": os.name(),
        "modules": modules.iter().map(|m| json!({"code_file": m.code_file, "base": format!("{:#x}", m.base), "size": m.size, "debug_file": m.debug_file, "cv": m.has_cv, "symbols": m.sym_kind, "sym_len": m.sym.as_ref().map(|s| s.len())})).collect::<Vec<_>>(),
        "threads": threads.iter().take(8).map(|t| json!({"id": t.id, "stack_len": t.stack_len, "shape": t.shape, "ip": format!("{:#x}", t.ip), "sp": format!("{:#x}", t.sp), "fp": format!("{:#x}", t.fp)})).collect::<Vec<_>>(),
        "thread_count": threads.len(),
        "crashing_thread": crashing,
        "streams_mask": streams,
        "memory64": use_mem64,
        "big_endian": be,
        "dump_len": dump.len(),
    });
    World {
        arch,
        os,
        modules,
        threads,
        dump,
        total_stack_bytes,
        has_proc_limits,
        regions,
        crashing_id: crashing,
        uses_breakpad_info,
        describe,
    }
}

fn t_sp(t: &ThreadSpec) -> u64 {
    t.sp
}

/// Storage faults on the serialised dump (what a crashed writer or a bad disk leaves behind).
pub fn storage_fault(dump: &mut Vec<u8>) -> &'static str {
    if dump.is_empty() {
        return "none";
    }
    match ch("storage.kind", 8) {
        5..=7 => {
            // structure-aware rot: a 32-bit field of the header, of a directory entry or of
            // the first words of a stream (counts, entry sizes, RVAs live there) takes a
            // boundary value
            let n = 1 + ch("storage.field.n", 2);
            for _ in 0..n {
                field_rot(dump);
            }
            "field rot"
        }
        0 => {
            // anywhere, or just a few bytes short: the records written last (strings, the last
            // stream) then end 1-8 bytes past the end of the file
            let k = if chance("storage.torn_short", 1, 2) {
                dump.len().saturating_sub(1 + ch("storage.torn_by", 8) as usize)
            } else {
                range("storage.torn_at", 0, dump.len() as u64) as usize
            };
            dump.truncate(k);
            "torn tail"
        }
        1 => {
            let bs = [512usize, 4096][ch("storage.block", 2) as usize];
            let nb = dump.len().div_ceil(bs);
            let b = ch("storage.lost_block", nb as u32) as usize;
            let end = ((b + 1) * bs).min(dump.len());
            for x in &mut dump[b * bs..end] {
                *x = 0;
            }
            "lost sector"
        }
        2 => {
            let bs = [512usize, 4096][ch("storage.block", 2) as usize];
            let nb = dump.len().div_ceil(bs);
            let b = ch("storage.stale_block", nb as u32) as usize;
            let from = ch("storage.stale_from", nb as u32) as usize;
            let end = ((b + 1) * bs).min(dump.len());
            let src: Vec<u8> = (b * bs..end).map(|i| dump[(from * bs + (i - b * bs)) % dump.len()]).collect();
            dump[b * bs..end].copy_from_slice(&src);
            "stale sector"
        }
        3 => {
            let n = 1 + ch("storage.flips", 3);
            for _ in 0..n {
                let at = range("storage.flip_at", 0, dump.len() as u64 - 1) as usize;
                dump[at] ^= 1 << ch("storage.flip_bit", 8);
            }
            "bit rot"
        }
        _ => {
            // one bit in the header / directory area
            let at = range("storage.hdr_flip_at", 0, (dump.len().min(4096) - 1) as u64) as usize;
            dump[at] ^= 1 << ch("storage.flip_bit", 8);
            "header bit flip"
        }
    }
}

fn wr32(b: &mut [u8], at: usize, v: u32) {
    let be = BIG_ENDIAN.with(|b| b.get());
    if let Some(x) = b.get_mut(at..at + 4) {
        x.copy_from_slice(&if be { v.to_be_bytes() } else { v.to_le_bytes() });
    }
}

fn field_rot(dump: &mut [u8]) {
    let len = dump.len() as u32;
    let nstreams = rd32(dump, 8).unwrap_or(0).min(64);
    let dir = rd32(dump, 12).unwrap_or(0) as usize;
    // where: header word | directory field | one of the first 16 words of a stream | a word
    // of an out-of-line record a stream points at (anywhere, 4-aligned)
    let at = match ch("storage.field.where", 8) {
        0 => 4 * (2 + ch("storage.field.hdr", 2)) as usize, // stream count, directory rva
        1 | 2 if nstreams > 0 => dir + 12 * ch("storage.field.dirent", nstreams) as usize + 4 * ch("storage.field.dirfield", 3) as usize,
        7 => 4 * range("storage.field.any", 0, (len / 4).saturating_sub(1) as u64) as usize,
        _ if nstreams > 0 => {
            let e = dir + 12 * ch("storage.field.stream", nstreams) as usize;
            let (size, rva) = (rd32(dump, e + 4).unwrap_or(0), rd32(dump, e + 8).unwrap_or(0));
            let words = (size / 4).clamp(1, 16);
            rva as usize + 4 * ch("storage.field.word", words) as usize
        }
        _ => 8,
    };
    let old = rd32(dump, at).unwrap_or(0);
    let v = match ch("storage.field.value", 14) {
        0 => 0,
        1 => 1,
        2 => 2,
        3 => 0x7fff_ffff,
        4 => 0x8000_0000,
        5 => 0xffff_fff0,
        6 => u32::MAX,
        7 => len,
        8 => len.wrapping_sub(1),
        9 => len.wrapping_sub(4),
        10 => old.wrapping_add(1),
        11 => old.wrapping_sub(1),
        12 => old.wrapping_mul(2),
        _ => old ^ 0x0001_0000,
    };
    wr32(dump, at, v);
}

fn rd32(b: &[u8], at: usize) -> Option<u32> {
    let be = BIG_ENDIAN.with(|b| b.get());
    b.get(at..at + 4).map(|x| if be { u32::from_be_bytes(x.try_into().unwrap()) } else { u32::from_le_bytes(x.try_into().unwrap()) })
}

/// `HandleDataStream` with `MINIDUMP_HANDLE_DESCRIPTOR_2` entries, each with a chain of
/// `MINIDUMP_HANDLE_OBJECT_INFORMATION` elements linked by RVA.  Adversarial worlds draw the
/// chains a damaged writer or a flipped bit produces: an element type nobody knows, a chain
/// that points back into itself, a link outside the file.
fn handle_stream_v2(e: Endian, adv: bool) -> SimpleStream {
    let stream_type = md::MINIDUMP_STREAM_TYPE::HandleDataStream as u32;
    let ndesc = 1 + ch("dump.handles.n", 3) as usize;
    let shape = if adv { ch("dump.handles.shape", 10) } else { 0 };
    let declared = match shape {
        1 | 8 | 9 => [u32::MAX, 0x0400_0000, 0x7fff_ffff][ch("dump.handles.count_x", 3) as usize],
        2 => 0,
        _ => ndesc as u32,
    };
    // the header states the size of a descriptor itself: an unknown size, and sizes (0, 1) for
    // which any descriptor count "fits" into the stream
    let desc_size: u32 = match shape {
        3 => 36,
        8 => 0,
        9 => 1,
        _ => 40,
    };
    let mut sec = Section::with_endian(e).D32(16).D32(desc_size).D32(declared).D32(0);
    // chains: per descriptor 0-3 elements, each with a label
    let chains: Vec<Vec<Label>> = (0..ndesc).map(|_| (0..ch("dump.handles.chain", 4)).map(|_| Label::new()).collect()).collect();
    for (i, chain) in chains.iter().enumerate() {
        sec = sec.D64(4 * (i as u64 + 1)).D32(0).D32(0).D32(0).D32(0x12019f).D32(2).D32(65);
        sec = match chain.first() {
            Some(l) => sec.D32(l),
            None => sec.D32(if shape == 4 { 0xffff_fff0u32 } else { 0 }),
        };
        sec = sec.D32(0);
    }
    for chain in &chains {
        for (k, l) in chain.iter().enumerate() {
            sec = sec.mark(l);
            let last = k + 1 == chain.len();
            // next_info_rva
            sec = if !last {
                sec.D32(&chain[k + 1])
            } else {
                match shape {
                    5 => sec.D32(l),          // the last element points at itself
                    6 => sec.D32(&chain[0]),  // ... or back at the head of its chain
                    7 => sec.D32(0x7fff_fff0u32),
                    _ => sec.D32(0),
                }
            };
            // info_type, size_of_info, payload
            let ty: u32 = if adv && chance("dump.handles.unknown_type", 1, 4) { [9u32, 10, 0x1234, u32::MAX][ch("dump.handles.type_x", 4) as usize] } else { 1 + ch("dump.handles.type", 8) };
            sec = sec.D32(ty).D32(12 + 8).D64(0x1122_3344_5566_7788);
        }
    }
    SimpleStream { stream_type, section: sec }
}

/// `MozMacosCrashInfoStream`: a header with up to 20 record locations and the records themselves
/// (fixed fields by version, then five C strings at `record_start_size`).  Adversarial worlds
/// draw the shapes a damaged or newer writer produces.
fn mac_crash_info_stream(e: Endian, adv: bool) -> SimpleStream {
    let stream_type = md::MINIDUMP_STREAM_TYPE::MozMacosCrashInfoStream as u32;
    let shape = if adv { ch("dump.mac.shape", 12) } else { 0 };
    let version: u64 = [5u64, 4, 1, 5][ch("dump.mac.version", 4) as usize];
    let fixed_size = |v: u64| -> u32 {
        if v >= 5 {
            40
        } else if v >= 4 {
            32
        } else {
            16
        }
    };
    let nrec = 1 + ch("dump.mac.records", 3) as usize;
    let start_size: u32 = match shape {
        1 => 8,                          // smaller than the fixed part
        2 => 4096,                       // beyond the record
        3 => fixed_size(version) + 24,   // a newer writer: unknown fixed fields before the strings
        _ => fixed_size(version),
    };
    let count: u32 = match shape {
        4 => 25,
        5 => u32::MAX,
        6 => 0,
        _ => nrec as u32,
    };
    let labels: Vec<Label> = (0..20).map(|_| Label::new()).collect();
    let sizes: Vec<Label> = (0..20).map(|_| Label::new()).collect();
    let mut sec = Section::with_endian(e).D32(stream_type).D32(count).D32(start_size);
    for i in 0..20 {
        sec = sec.D32(&sizes[i]).D32(&labels[i]);
    }
    let strings: [&[u8]; 5] = [b"/usr/lib/libsim.dylib", b"abort() called", b"sig \xf0\x9f\xa6\x80", b"0 1 2", b""];
    for i in 0..20 {
        if i >= nrec {
            // unused slots: empty, or (adversarial) pointing far outside the file
            if shape == 7 {
                sizes[i].set_const(64);
                labels[i].set_const(0xffff_fff0);
            } else {
                sizes[i].set_const(0);
                labels[i].set_const(0);
            }
            continue;
        }
        let v = match shape {
            8 if i == 1 => version ^ 1, // two versions in one stream
            9 => 7,                      // newer than known
            10 => 0,                     // older than any known
            _ => version,
        };
        let mut rec = Section::with_endian(e).D64(stream_type as u64).D64(v);
        if v >= 4 || v == 0 {
            rec = rec.D64([3u64, u64::MAX, 0][i % 3]).D64(1);
        }
        if v >= 5 {
            rec = rec.D64(0xdead_beef);
        }
        if shape == 3 {
            rec = rec.append_repeated(0xAA, 24);
        }
        for (k, st) in strings.iter().enumerate() {
            if shape == 11 && k == 2 {
                rec = rec.append_bytes(&[0xff, 0xfe, 0x80]); // not UTF-8
            } else {
                rec = rec.append_bytes(st);
            }
            // the last string of the last record may lack its terminator
            if !(adv && k == 4 && i + 1 == nrec && chance("dump.mac.unterminated", 1, 6)) {
                rec = rec.D8(0);
            }
        }
        let len = rec.size();
        sizes[i].set_const(if adv && chance("dump.mac.short_record", 1, 8) { len / 2 } else { len });
        sec = sec.mark(&labels[i]).append_section(rec);
    }
    SimpleStream { stream_type, section: sec }
}

/// `MozMacosBootargsStream`: a 64-bit RVA of a length-prefixed UTF-16 string.
fn mac_bootargs_stream(e: Endian, adv: bool) -> SimpleStream {
    let stream_type = md::MINIDUMP_STREAM_TYPE::MozMacosBootargsStream as u32;
    let at = Label::new();
    let shape = if adv { ch("dump.bootargs.shape", 5) } else { 0 };
    let mut sec = Section::with_endian(e).D32(if shape == 1 { 0 } else { stream_type });
    sec = match shape {
        2 => sec.D64(u64::MAX - 2),
        3 => sec.D64(0),
        _ => sec.D64(&at),
    };
    let text: Vec<u16> = "-v keepsyms=1 \u{1f980}".encode_utf16().collect();
    let declared = if shape == 4 { 2 * text.len() as u32 + 1 } else { 2 * text.len() as u32 };
    sec = sec.mark(&at).D32(declared);
    for u in &text {
        sec = sec.D16(*u);
    }
    SimpleStream { stream_type, section: sec }
}


/// Point the exception stream's thread_context at the context of thread `tid` (minidump-synth
/// leaves that location descriptor empty).  Pure byte surgery on the little-endian dump.
fn patch_exception_context(dump: &mut [u8], tid: u32) {
    let (Some(count), Some(dir)) = (rd32(dump, 8), rd32(dump, 12)) else { return };
    let mut exc_rva = None;
    let mut threads_rva = None;
    for i in 0..count as usize {
        let e = dir as usize + i * 12;
        let (Some(ty), Some(rva)) = (rd32(dump, e), rd32(dump, e + 8)) else { return };
        if ty == 6 {
            exc_rva = Some(rva as usize);
        }
        if ty == 3 {
            threads_rva = Some(rva as usize);
        }
    }
    let (Some(exc), Some(tl)) = (exc_rva, threads_rva) else { return };
    let Some(n) = rd32(dump, tl) else { return };
    for i in 0..n as usize {
        let t = tl + 4 + i * 48;
        if rd32(dump, t) == Some(tid) {
            let (Some(size), Some(rva)) = (rd32(dump, t + 40), rd32(dump, t + 44)) else { return };
            if exc + 168 <= dump.len() {
                let be = BIG_ENDIAN.with(|b| b.get());
                dump[exc + 160..exc + 164].copy_from_slice(&if be { size.to_be_bytes() } else { size.to_le_bytes() });
                dump[exc + 164..exc + 168].copy_from_slice(&if be { rva.to_be_bytes() } else { rva.to_le_bytes() });
            }
            return;
        }
    }
}

/// A minimal valid dump (one thread, a small stack, no modules) with a 32- or 64-bit CPU:
/// the "previous job" a long-lived worker thread may have rendered before the world under test.
pub fn tiny_dump(width64: bool) -> Vec<u8> {
    let e = Endian::Little;
    let arch = if width64 { Arch::Amd64 } else { Arch::X86 };
    let mut rng = Xoshiro::new(7);
    let r = Regs { ip: 0x1234_5678, sp: 0x1000, fp: 0x1008, lr: 0, near: None };
    let ctx = context_section(arch, &r, &mut rng, false);
    let stack = Memory::with_section(Section::with_endian(e).append_repeated(0, 0x40), 0x1000);
    let thread = Thread::new(e, 1, &stack, &ctx);
    let si = SystemInfo::new(e).set_processor_architecture(arch.processor_architecture()).set_platform_id(OsKind::Linux.platform_id());
    let mut ex = Exception::new(e);
    ex.thread_id = 1;
    ex.exception_record.exception_code = 11;
    ex.exception_record.exception_address = 0x45;
    SynthMinidump::with_endian(e)
        .add_thread(thread)
        .add_system_info(si)
        .add_exception(ex)
        .add(ctx)
        .add_memory(stack)
        .finish()
        .expect("tiny dump")
}

/// Write thread environment block addresses into the thread list (minidump-synth writes 0).
fn patch_thread_tebs(dump: &mut [u8], tebs: &[u64]) {
    let (Some(count), Some(dir)) = (rd32(dump, 8), rd32(dump, 12)) else { return };
    let mut threads_rva = None;
    for i in 0..count as usize {
        let e = dir as usize + i * 12;
        let (Some(ty), Some(rva)) = (rd32(dump, e), rd32(dump, e + 8)) else { return };
        if ty == 3 {
            threads_rva = Some(rva as usize);
        }
    }
    let Some(tl) = threads_rva else { return };
    let Some(n) = rd32(dump, tl) else { return };
    let be = BIG_ENDIAN.with(|b| b.get());
    for i in 0..(n as usize).min(tebs.len()) {
        let at = tl + 4 + i * 48 + 16;
        if at + 8 <= dump.len() {
            dump[at..at + 8].copy_from_slice(&if be { tebs[i].to_be_bytes() } else { tebs[i].to_le_bytes() });
        }
    }
}

/// Point the system-info stream's CSD-version (OS build string) at the string that was added
/// with the marker prefix "\u{1}CSD\u{1}" (the marker is cut off by pointing past it).
/// One of the dump's strings (CSD version, first module's name, first thread name) is moved to
/// the very end of the file, and its length prefix says 0-8 bytes more than the file has: what a
/// dump cut a few bytes short looks like to the string reader.
fn tail_string(dump: &mut Vec<u8>) {
    let be = BIG_ENDIAN.with(|b| b.get());
    let (Some(count), Some(dir)) = (rd32(dump, 8), rd32(dump, 12)) else { return };
    let want = [7u32, 4, 24][ch("dump.tail_string.which", 3) as usize];
    let mut field: Option<usize> = None;
    for i in 0..count.min(64) as usize {
        let e = dir as usize + i * 12;
        let (Some(ty), Some(rva)) = (rd32(dump, e), rd32(dump, e + 8)) else { return };
        if ty == want {
            field = Some(match want {
                7 => rva as usize + 24, // MINIDUMP_SYSTEM_INFO.csd_version_rva
                4 => rva as usize + 4 + 20, // first MINIDUMP_MODULE.module_name_rva
                _ => rva as usize + 4 + 4, // first MINIDUMP_THREAD_NAME.thread_name_rva (64-bit)
            });
        }
    }
    let Some(field) = field else { return };
    if field + 8 > dump.len() {
        return;
    }
    probe("e4.tail_string");
    let text: Vec<u8> = "tail string.dll".encode_utf16().flat_map(|u| if be { u.to_be_bytes() } else { u.to_le_bytes() }).collect();
    let at = dump.len() as u32;
    let declared = text.len() as u32 + 2 * ch("dump.tail_string.over", 5);
    dump.extend_from_slice(&if be { declared.to_be_bytes() } else { declared.to_le_bytes() });
    dump.extend_from_slice(&text);
    wr32(dump, field, at);
    if want == 24 {
        // the high half of the 64-bit RVA
        wr32(dump, if be { field } else { field + 4 }, 0);
        if be {
            wr32(dump, field + 4, at);
        }
    }
}

fn patch_csd_version(dump: &mut [u8], csd: &str) {
    let be = BIG_ENDIAN.with(|b| b.get());
    let enc = |s: &str| -> Vec<u8> { s.encode_utf16().flat_map(|u| if be { u.to_be_bytes() } else { u.to_le_bytes() }).collect() };
    let marker = enc("\u{1}CSD\u{1}");
    let Some(pos) = dump.windows(marker.len()).position(|w| w == &marker[..]) else { return };
    // A MINIDUMP_STRING is a u32 byte length followed by UTF-16 data: build one in place, just
    // before the real text (overwriting the tail of the marker)
    let text_at = pos + marker.len();
    if text_at < 4 {
        return;
    }
    let len = enc(csd).len() as u32;
    let hdr = text_at - 4;
    dump[hdr..hdr + 4].copy_from_slice(&if be { len.to_be_bytes() } else { len.to_le_bytes() });
    let (Some(count), Some(dir)) = (rd32(dump, 8), rd32(dump, 12)) else { return };
    for i in 0..count as usize {
        let e = dir as usize + i * 12;
        let (Some(ty), Some(rva)) = (rd32(dump, e), rd32(dump, e + 8)) else { return };
        if ty == 7 {
            let at = rva as usize + 24;
            if at + 4 <= dump.len() {
                let v = hdr as u32;
                dump[at..at + 4].copy_from_slice(&if be { v.to_be_bytes() } else { v.to_le_bytes() });
            }
        }
    }
}
