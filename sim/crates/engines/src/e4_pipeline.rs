//! E4 `pipeline` — C13 (determinism / schedule independence) and C03 (terminates, never
//! panics, always renders) on the whole real pipeline:
//! dump bytes → `Minidump::read` → `process_minidump_with_options` → the four renderings,
//! with the real `Symbolizer` over a gated scripted supplier or the real `HttpSymbolSupplier`
//! on the simulated transport.

use crate::common::{draw_delay, draw_exec_config, exec_config_json, Scratch};
use crate::dumpgen::{self, ModSpec, World, WorldOpts};
use async_trait::async_trait;
use breakpad_symbols::{
    FileError, FileKind, FillSymbolError, FrameSymbolizer, FrameWalker, HttpSymbolSupplier,
    LocateSymbolsResult, Module, SymbolError, SymbolFile, SymbolStats, SymbolSupplier, Symbolizer,
};
use minidump::Minidump;
use minidump_processor::{ProcessState, ProcessorOptions};
use minidump_unwind::{PendingSymbolStats, SymbolProvider};
use reqwest::sim::{BodyEnd, Plan, RequestInfo};
use serde_json::json;
use simkit::exec::Gate;
use simkit::runner::run_sub;
use simkit::ctx::Tape;
use simkit::{ch, chance, probe, range, Exec, Outcome, Stop, Violation};
use std::cell::RefCell;
use std::collections::{BTreeMap, HashMap};
use std::io::Write;
use std::path::PathBuf;
use std::rc::Rc;
use std::sync::atomic::{AtomicU64, Ordering};
use std::sync::Arc;
use std::time::Duration;

pub const RULE_C13: &str = "Each run draws one world from the tape (arch x86/amd64/arm/arm64, OS, 1-6 modules with shared leaf names, occasionally two modules with one debug identity under different file names, and consistent / absent symbol files incl. CFI programs with aliased registers, 1-8 threads (occasionally 31-40, reaching FuturesUnordered) with frame-pointer chains / CFI-walkable / scan-only stacks, exception, thread names, unloaded modules, memory info, handles (version 1 or version 2 descriptors with object-information chains), Linux text streams incl. /proc/limits with several entries, macOS crash-info records and boot args, MemoryList or Memory64List) and one processor option set, then executes the same world 3-6 times, each execution on a fresh thread with its own hash seed and its own schedule: per-module supplier delay (0-3 gates on the simulated clock) or HTTP chunking and latencies (one symbol server, or two with every module on both / the first only / the second only), executor policy, spurious-poll probability, 0-2 companion tasks processing the same dump through the same symbolizer; with the HTTP supplier, executions after the first alternate between a fresh cache and the run's shared, already filled cache (served-from-cache must render the same as downloaded); executions after the first may run on a thread that has already processed and rendered an unrelated 32- or 64-bit dump. Execution 0 is the plain schedule (everything ready, FIFO, hash seed 0). All executions must render byte-identical JSON, pretty JSON, text and brief text. NON-TRIVIAL iff the world has at least two threads and at least two executions had different decision traces. DISTINCT = distinct (world digest, multiset of execution decision traces) among non-trivial runs.";

pub const RULE_C03: &str = "Each run draws one world as for C13 but with adversarial shapes enabled (cyclic / descending / extreme frame pointers, sp at 0 / 4 / 2^64-1 / outside the stack, stack at the top of the address space, CFI that makes no progress or never reads memory, hostile STACK WIN sizes, short /proc/limits lines, memory-info ranges ending at 2^64-1 or empty, exception parameters up to 15, code bytes at the crashing ip, handle object-information chains with unknown element types / cycles / links outside the file, macOS crash-info records with damaged counts, sizes, versions and strings, INLINE records at nesting level 2^32-1 / with a missing level / 16 levels deep / nested in themselves) and hostile symbol files (corrupted, random grammar, unterminated), one option set of {stable_basic, stable_all, unstable_all}, an optional storage fault on the serialised dump (torn tail, lost or stale 512/4096-byte sector, bit rot, header bit flip), symbol supply through the gated supplier or the real HTTP supplier with 404/5xx/connect error/reset/clean cut/stall+timeout/corrupt cache entry, and an optional companion task that is cancelled mid-way. Oracles: no panic; executor steps, provider calls and frames per thread within budgets tied to the input size; peak live heap within 256 MiB + (16 KiB x permitted frames x (1 + most INLINE records of one function) + 4096 x input bytes) per concurrent processing; Ok state always renders as text, brief text, JSON and pretty JSON, the JSON parses, and rendering into a failing writer returns without panicking. NON-TRIVIAL iff the dump was accepted (processing returned a state) and at least one fault (storage, supply, hostile symbols, adversarial shape) was present. DISTINCT = distinct (world digest, fault description, decision trace) among non-trivial runs.";

// ---------------------------------------------------------------------------------------------
// shared world data (Send: it crosses into sub-execution threads)

#[derive(Clone)]
pub struct Shared {
    pub dump: Arc<Vec<u8>>,
    pub modules: Arc<Vec<ModSpec>>,
    pub options: u8, // 0 stable_basic, 1 stable_all, 2 unstable_all
    pub use_http: bool,
    /// HTTP mode: a cache/tmp root that survives this execution (warm-cache executions of C13).
    pub warm_root: Option<PathBuf>,
    /// Path of an "extra JSON" file handed to the processor (`ProcessorOptions::evil_json`).
    pub evil_path: Option<PathBuf>,
}

fn options_of(i: u8) -> ProcessorOptions<'static> {
    match i {
        0 => ProcessorOptions::stable_basic(),
        1 => ProcessorOptions::stable_all(),
        _ => ProcessorOptions::unstable_all(),
    }
}

// ---------------------------------------------------------------------------------------------
// suppliers

/// Scripted supplier: answers per code_file after a number of gates opened by simulated-clock
/// events.  The answer (bytes or NotFound) is fixed by the world; only the timing varies.
struct GatedSupplier {
    modules: Arc<Vec<ModSpec>>,
    /// code_file → number of gates, drawn by the caller from the execution's tape
    gates: BTreeMap<String, u32>,
    calls: Arc<AtomicU64>,
    /// full module key -> (calls, in flight now, max in flight)
    per_key: Arc<std::sync::Mutex<BTreeMap<String, (u32, u32, u32)>>>,
}

fn full_key(m: &(dyn Module + Sync)) -> String {
    format!("{}|{:?}|{:?}|{:?}", m.code_file(), m.code_identifier().map(|c| c.to_string()), m.debug_file().map(|d| d.to_string()), m.debug_identifier().map(|d| d.to_string()))
}

#[async_trait]
impl SymbolSupplier for GatedSupplier {
    async fn locate_symbols(&self, module: &(dyn Module + Sync)) -> Result<LocateSymbolsResult, SymbolError> {
        self.calls.fetch_add(1, Ordering::SeqCst);
        let cf = module.code_file().to_string();
        let fk = full_key(module);
        let call_no;
        {
            let mut pk = self.per_key.lock().unwrap();
            let e = pk.entry(fk.clone()).or_insert((0, 0, 0));
            e.0 += 1;
            if e.0 > 10_000 {
                simkit::runner::trip("c03.supplier_spin", "the symbol supplier was asked more than 10 000 times for one module (a retry loop that does not end)");
            }
            e.1 += 1;
            e.2 = e.2.max(e.1);
            call_no = e.0;
        }
        let n = self.gates.get(&cf).copied().unwrap_or(0);
        for _ in 0..n {
            let g = Gate::new();
            g.open_after("supplier.gate", crate::common::draw_delay_nz("e4.sup.delay"));
            g.wait().await;
        }
        self.per_key.lock().unwrap().get_mut(&fk).unwrap().1 -= 1;
        // several modules may share a code_file leaf but never a full code_file + base; the
        // world keys symbols by full code_file and debug id
        let want_id = module.debug_identifier().map(|d| d.breakpad().to_string());
        for m in self.modules.iter() {
            if m.code_file == cf && (want_id.is_none() || !m.has_cv || want_id.as_deref() == Some(&m.breakpad_id())) {
                if m.sym_kind == "load error" {
                    // the kind of I/O error is a property of the module (the same every time it is asked)
                    use std::io::ErrorKind as K;
                    let kind = [K::Other, K::Interrupted, K::NotFound, K::PermissionDenied, K::TimedOut, K::UnexpectedEof, K::WouldBlock][(crate::common::fnv(cf.as_bytes()) % 7) as usize];
                    return Err(SymbolError::LoadError(std::io::Error::new(kind, "simulated read failure")));
                }
                if m.sym_kind == "transient load error" && call_no == 1 {
                    // a passing I/O error: only the first request for the module fails; whoever
                    // asks again gets the file (nobody does while the first answer is remembered)
                    return Err(SymbolError::LoadError(std::io::Error::new(std::io::ErrorKind::Interrupted, "simulated transient read failure")));
                }
                return match &m.sym {
                    Some(bytes) => Ok(LocateSymbolsResult {
                        // what `SymbolFile::from_bytes` does, through a reader that notices a
                        // parser that keeps asking after the end of the input
                        symbols: SymbolFile::parse(EofBudgetReader { data: bytes, pos: 0, eof_reads: 0 }, |_| ())?,
                        extra_debug_info: None,
                    }),
                    None => Err(SymbolError::NotFound),
                };
            }
        }
        Err(SymbolError::NotFound)
    }
    async fn locate_file(&self, _module: &(dyn Module + Sync), _file_kind: FileKind) -> Result<PathBuf, FileError> {
        Err(FileError::NotFound)
    }
}

/// A slice reader that counts the reads answered with 0 after the end of the data.
struct EofBudgetReader<'a> {
    data: &'a [u8],
    pos: usize,
    eof_reads: u32,
}

impl std::io::Read for EofBudgetReader<'_> {
    fn read(&mut self, buf: &mut [u8]) -> std::io::Result<usize> {
        let n = buf.len().min(self.data.len() - self.pos);
        buf[..n].copy_from_slice(&self.data[self.pos..self.pos + n]);
        self.pos += n;
        if n == 0 && !buf.is_empty() {
            self.eof_reads += 1;
            if self.eof_reads > 64 {
                simkit::runner::trip("c03.symbol_parse_spin", "the symbol parser read more than 64 times after the reader had answered EOF (it does not terminate on this symbol file)");
            }
        }
        Ok(n)
    }
}

/// Counts provider calls and trips the walk budget (a runaway walk shows up here long before
/// it shows up in memory).
struct CountingProvider {
    inner: Symbolizer,
    walk_calls: AtomicU64,
    fill_calls: AtomicU64,
    walk_budget: u64,
    fill_budget: u64,
}

#[async_trait]
impl SymbolProvider for CountingProvider {
    async fn fill_symbol(&self, module: &(dyn Module + Sync), frame: &mut (dyn FrameSymbolizer + Send)) -> Result<(), FillSymbolError> {
        let n = self.fill_calls.fetch_add(1, Ordering::SeqCst) + 1;
        if n > self.fill_budget {
            simkit::runner::trip("c03.provider_budget", "symbolication was requested more often than 256 x (stack bytes + 64): the walk does not terminate within a budget tied to the input size");
        }
        self.inner.fill_symbol(module, frame).await
    }
    async fn walk_frame(&self, module: &(dyn Module + Sync), walker: &mut (dyn FrameWalker + Send)) -> Option<()> {
        let n = self.walk_calls.fetch_add(1, Ordering::SeqCst) + 1;
        if n > self.walk_budget {
            simkit::runner::trip("c03.frame_bound", "more CFI walk requests than the sum over threads of (stack bytes + 2) + threads: some thread is walked for more frames than its stack memory has bytes");
        }
        self.inner.walk_frame(module, walker).await
    }
    async fn get_file_path(&self, module: &(dyn Module + Sync), file_kind: FileKind) -> Result<PathBuf, FileError> {
        self.inner.get_file_path(module, file_kind).await
    }
    fn stats(&self) -> HashMap<String, SymbolStats> {
        self.inner.stats()
    }
    fn pending_stats(&self) -> PendingSymbolStats {
        self.inner.pending_stats()
    }
}

// ---------------------------------------------------------------------------------------------
// one execution

#[derive(Clone, Debug, PartialEq, Eq)]
pub struct Renderings {
    pub status: String,
    pub json: Vec<u8>,
    pub json_pretty: Vec<u8>,
    pub text: Vec<u8>,
    pub brief: Vec<u8>,
}

#[derive(Clone, Debug)]
pub struct ExecOut {
    pub outputs: Vec<Renderings>, // main task first, then companions
    pub frames: Vec<usize>,
    pub stop: String,
    pub steps: u64,
    pub peak_bytes: isize,
    pub fill_calls: u64,
    pub walk_calls: u64,
    pub requests: usize,
    pub render_problem: Option<String>,
    pub writer_problem: Option<String>,
    pub json_problem: Option<String>,
    pub concurrent_render_problem: Option<String>,
    pub supply_faults: u32,
    pub cancelled_companion: bool,
    /// gated supplier only: full module key -> (calls, max in flight)
    pub per_key: BTreeMap<String, (u32, u32)>,
    pub pending: (u64, u64),
}

struct FailingWriter {
    fail_at: usize,
    written: usize,
    short: bool,
    calls: u64,
}
impl Write for FailingWriter {
    fn write(&mut self, buf: &[u8]) -> std::io::Result<usize> {
        self.calls += 1;
        if self.calls > 50_000_000 {
            simkit::runner::trip("c03.writer_spin", "rendering into a failing writer keeps calling write without end");
        }
        if self.written >= self.fail_at {
            return Err(std::io::Error::other("injected write failure"));
        }
        let room = self.fail_at - self.written;
        let n = if self.short { buf.len().min(room).min(7).max(1) } else { buf.len().min(room) };
        self.written += n;
        Ok(n)
    }
    fn flush(&mut self) -> std::io::Result<()> {
        Ok(())
    }
}

/// A writer during one of whose write calls another OS thread processes and renders an
/// unrelated dump from start to end (deterministic: this thread waits for it).
struct InterleavingWriter {
    out: Vec<u8>,
    calls: u64,
    at: u64,
    other: Option<Vec<u8>>,
}
impl Write for InterleavingWriter {
    fn write(&mut self, buf: &[u8]) -> std::io::Result<usize> {
        if self.calls == self.at {
            if let Some(bytes) = self.other.take() {
                let _ = std::thread::spawn(move || {
                    use futures_util::FutureExt;
                    simkit::hashseed::set_thread_seed(Some(0x0c0c_0c0c));
                    if let Ok(d) = Minidump::read(bytes) {
                        let sym = Symbolizer::new(breakpad_symbols::SimpleSymbolSupplier::new(vec![]));
                        if let Some(Ok(state)) = minidump_processor::process_minidump(&d, &sym).now_or_never() {
                            let _ = render(&state);
                        }
                    }
                })
                .join();
            }
        }
        self.calls += 1;
        self.out.extend_from_slice(buf);
        Ok(buf.len())
    }
    fn flush(&mut self) -> std::io::Result<()> {
        Ok(())
    }
}

fn render(state: &ProcessState) -> Result<Renderings, String> {
    let mut json = Vec::new();
    state.print_json(&mut json, false).map_err(|e| format!("print_json failed: {e}"))?;
    let mut json_pretty = Vec::new();
    state.print_json(&mut json_pretty, true).map_err(|e| format!("print_json(pretty) failed: {e}"))?;
    let mut text = Vec::new();
    state.print(&mut text).map_err(|e| format!("print failed: {e}"))?;
    let mut brief = Vec::new();
    state.print_brief(&mut brief).map_err(|e| format!("print_brief failed: {e}"))?;
    Ok(Renderings {
        status: "ok".into(),
        json,
        json_pretty,
        text,
        brief,
    })
}

#[derive(Clone, Copy, Debug)]
pub struct ExecMode {
    /// C03: supply faults, cancellation of a companion, writer faults.
    pub faults: bool,
    pub companions: u32,
    /// HTTP mode: use (and fill) the run's shared cache directory instead of a fresh one.
    pub use_warm_cache: bool,
    /// The executing thread first processes and renders another, unrelated dump (0 = none,
    /// 1 = a 32-bit one, 2 = a 64-bit one): a long-lived worker thread has a history.
    pub previous_job: u8,
    /// While this execution renders its report, ANOTHER OS thread renders an unrelated dump of
    /// the other pointer width (0 = no, 1 = a 32-bit one, 2 = a 64-bit one) in the middle of one
    /// of its write calls: what a multi-threaded host does to process-wide rendering state.
    pub concurrent_render: u8,
}

/// Runs inside a sub-execution (own thread, own context).  Every decision comes from the
/// execution's own tape.
pub fn execute(shared: Shared, mode: ExecMode, stack_budget: u64, nthreads: u64) -> ExecOut {
    let mut cfg = draw_exec_config(40_000_000);
    if !mode.faults {
        // scheduling noise must not turn into a timeout when no fault is being injected
        cfg.time_pass_never = &["net.deadline"];
    }
    let calls = Arc::new(AtomicU64::new(0));
    let per_key: Arc<std::sync::Mutex<BTreeMap<String, (u32, u32, u32)>>> = Arc::new(std::sync::Mutex::new(BTreeMap::new()));
    let scratch = if shared.use_http { Some(Scratch::new("e4")) } else { None };
    let mut supply_faults = 0u32;
    let supplier: Box<dyn FnOnce() -> Symbolizer> = if shared.use_http {
        probe("e4.http_supplier");
        let root = match (&shared.warm_root, mode.use_warm_cache) {
            (Some(w), true) => {
                probe("e4.warm_cache_execution");
                w.clone()
            }
            _ => scratch.as_ref().unwrap().root.clone(),
        };
        std::fs::create_dir_all(root.join("cache")).unwrap();
        std::fs::create_dir_all(root.join("tmp")).unwrap();
        let mods = shared.modules.clone();
        let faults = mode.faults;
        // optionally a corrupt cache entry for one module
        if faults && chance("e4.http.corrupt_cache", 1, 10) {
            if let Some(rel) = mods.iter().filter_map(|m| m.rel.clone()).next() {
                let p = root.join("cache").join(rel);
                let _ = std::fs::create_dir_all(p.parent().unwrap());
                let _ = std::fs::write(&p, b"MODULE Linux x86 0 x\ngarbage that does not parse\n");
                supply_faults += 1;
            }
        }
        let fault_counter = Rc::new(RefCell::new(0u32));
        let fc = fault_counter.clone();
        // Half of the worlds configure two symbol servers (a property of the world, the same in
        // every execution): each module is on both, on the first only or on the second only
        let two_servers = crate::common::fnv(&shared.dump) & 1 == 1;
        if two_servers {
            probe("e4.http_two_servers");
        }
        let on_server = move |rel: &str, second: bool| -> bool {
            if !two_servers {
                return !second;
            }
            match crate::common::fnv(rel.as_bytes()) % 3 {
                0 => true,
                1 => !second,
                _ => second,
            }
        };
        reqwest::sim::install(move |info: &RequestInfo| {
            let path = info.url.split('?').next().unwrap_or("");
            let second = info.url.starts_with("http://mirror.example/");
            if !info.follows_redirects {
                // code file + code id lookup: answer with a redirect to the symbol file's path
                for m in mods.iter().filter(|m| m.code_lookup) {
                    let sm = breakpad_symbols::SimpleModule {
                        code_file: Some(m.code_file.clone()),
                        code_identifier: Some(debugid::CodeId::new(format!("{:08X}{:x}", 0x5EED_C0DEu32, m.size))),
                        ..Default::default()
                    };
                    let Some(lp) = breakpad_symbols::code_info_breakpad_sym_lookup(&sm) else { continue };
                    let enc = reqwest::Url::parse("http://x/").unwrap().join(&lp).map(|u| u.path()[1..].to_string()).unwrap_or_default();
                    if path.ends_with(&enc) {
                        probe("e4.code_id_redirect");
                        let mut plan = Plan::redirect(302, &format!("/api/{}", m.rel.clone().unwrap_or_default()));
                        plan.head_delay = draw_delay("e4.http.head_delay");
                        return plan;
                    }
                }
                return Plan::status(404);
            }
            for m in mods.iter() {
                let Some(rel) = &m.rel else { continue };
                let enc = reqwest::Url::parse("http://x/").unwrap().join(rel).map(|u| u.path()[1..].to_string()).unwrap_or_default();
                if !path.ends_with(&enc) {
                    continue;
                }
                if !on_server(rel, second) {
                    return Plan::status(404);
                }
                // some objects are served through a redirect to their storage location (a property
                // of the world: the same in every execution)
                if info.url == info.origin_url && crate::common::fnv(rel.as_bytes()) % 5 == 1 {
                    probe("e4.object_redirect");
                    let mut plan = Plan::redirect(302, &format!("/store/{enc}?sig=5eed"));
                    plan.head_delay = draw_delay("e4.http.head_delay");
                    return plan;
                }
                let Some(body) = &m.sym else { return Plan::status(404) };
                let mut plan = Plan::ok(body.clone());
                if faults {
                    match ch("e4.http.fault", 10) {
                        0 => {
                            *fc.borrow_mut() += 1;
                            plan = Plan::status([404u16, 500, 503][ch("e4.http.status", 3) as usize]);
                        }
                        1 => {
                            *fc.borrow_mut() += 1;
                            plan = Plan::connect_error();
                        }
                        2 => {
                            *fc.borrow_mut() += 1;
                            let k = range("e4.http.reset_at", 0, body.len() as u64) as usize;
                            plan = Plan::ok(body[..k].to_vec());
                            plan.end = BodyEnd::Reset;
                        }
                        3 => {
                            *fc.borrow_mut() += 1;
                            let k = range("e4.http.cut_at", 0, body.len() as u64) as usize;
                            plan = Plan::ok(body[..k].to_vec());
                        }
                        4 => {
                            *fc.borrow_mut() += 1;
                            let k = range("e4.http.stall_at", 0, body.len() as u64) as usize;
                            plan = Plan::ok(body[..k].to_vec());
                            plan.end = BodyEnd::Stall;
                        }
                        _ => {}
                    }
                }
                plan.head_delay = draw_delay("e4.http.head_delay");
                let mut sizes = Vec::new();
                let mut left = plan.body.len();
                let style = ch("e4.http.chunking", 3);
                while left > 0 && sizes.len() < 48 {
                    let s = match style {
                        0 => left,
                        1 => 1usize << ch("e4.http.chunk.geo", 16),
                        _ => range("e4.http.chunk.any", 1, left as u64) as usize,
                    }
                    .min(left);
                    sizes.push(s);
                    left -= s;
                }
                plan.chunk_delays = sizes.iter().map(|_| draw_delay("e4.http.chunk_delay")).collect();
                plan.chunks = sizes;
                return plan;
            }
            Plan::status(404)
        });
        let _ = fault_counter;
        let cache = root.join("cache");
        let tmp = root.join("tmp");
        Box::new(move || {
            Symbolizer::new(HttpSymbolSupplier::new(
                if two_servers { vec!["http://symbols.example/".to_string(), "http://mirror.example/".to_string()] } else { vec!["http://symbols.example/".to_string()] },
                cache,
                tmp,
                vec![],
                // without fault injection no latency may change a fetch outcome
                Duration::from_secs(if faults { 30 } else { 10_000_000 }),
            ))
        })
    } else {
        let mut gates = BTreeMap::new();
        let mut slow = 0;
        for m in shared.modules.iter() {
            let g = ch("e4.sup.gates", 4);
            if g > 0 {
                slow += 1;
            }
            gates.insert(m.code_file.clone(), g);
        }
        if slow > 0 && nthreads >= 2 {
            probe("e4.shared_module_slow");
        }
        let sup = GatedSupplier {
            modules: shared.modules.clone(),
            gates,
            calls: calls.clone(),
            per_key: per_key.clone(),
        };
        Box::new(move || Symbolizer::new(sup))
    };
    let total_stack = stack_budget;
    let provider = Rc::new(CountingProvider {
        inner: supplier(),
        walk_calls: AtomicU64::new(0),
        fill_calls: AtomicU64::new(0),
        walk_budget: (1 + mode.companions as u64) * (total_stack + 3 * nthreads + 8),
        fill_budget: (1 + mode.companions as u64) * 256 * (total_stack + 64 * nthreads + 64),
    });

    let outputs: Rc<RefCell<Vec<Option<Renderings>>>> = Rc::new(RefCell::new(vec![None; 1 + mode.companions as usize]));
    let frames: Rc<RefCell<Vec<usize>>> = Rc::new(RefCell::new(Vec::new()));
    let problems: Rc<RefCell<(Option<String>, Option<String>, Option<String>, Option<String>)>> = Rc::new(RefCell::new((None, None, None, None)));
    let concurrent_render = mode.concurrent_render;
    let writer_plan = if mode.faults && chance("e4.writer_fault", 1, 3) { Some((range("e4.writer.fail_at", 0, 20_000) as usize, chance("e4.writer.short", 1, 2))) } else { None };

    if mode.previous_job > 0 {
        // the thread's history: process and render an unrelated dump first (results discarded)
        probe("e4.previous_job");
        let bytes = dumpgen::tiny_dump(mode.previous_job == 2);
        let mut pre = Exec::new(simkit::ExecConfig::default());
        pre.spawn("previous job", async move {
            if let Ok(d) = Minidump::read(bytes) {
                let sym = Symbolizer::new(breakpad_symbols::SimpleSymbolSupplier::new(vec![]));
                if let Ok(state) = minidump_processor::process_minidump(&d, &sym).await {
                    let _ = render(&state);
                }
            }
        });
        let _ = pre.run(|_, _| Ok(()));
    }
    let mut ex = Exec::new(cfg);
    let mut task_ids = Vec::new();
    for slot in 0..=mode.companions as usize {
        let shared = shared.clone();
        let provider = provider.clone();
        let outputs = outputs.clone();
        let frames = frames.clone();
        let problems = problems.clone();
        let id = ex.spawn(format!("process{slot}"), async move {
            let dump = match Minidump::read(shared.dump.as_slice().to_vec()) {
                Ok(d) => d,
                Err(e) => {
                    outputs.borrow_mut()[slot] = Some(Renderings {
                        status: format!("read-error:{}", e.name()),
                        json: vec![],
                        json_pretty: vec![],
                        text: vec![],
                        brief: vec![],
                    });
                    return;
                }
            };
            let evil_path = shared.evil_path.clone();
            let mut options: ProcessorOptions<'_> = options_of(shared.options);
            options.evil_json = evil_path.as_deref();
            let res = minidump_processor::process_minidump_with_options(&dump, &*provider, options).await;
            match res {
                Ok(state) => {
                    if slot == 0 {
                        *frames.borrow_mut() = state.threads.iter().map(|t| t.frames.len()).collect();
                    }
                    match render(&state) {
                        Ok(r) => {
                            if slot == 0 {
                                probe("e4.rendered_all");
                                if state.mac_crash_info.as_ref().map(|v| !v.is_empty()).unwrap_or(false) {
                                    probe("e4.mac_crash_info_read");
                                }
                                if state.mac_boot_args.as_ref().map(|b| b.bootargs.is_some()).unwrap_or(false) {
                                    probe("e4.mac_boot_args_read");
                                }
                                if let Err(e) = serde_json::from_slice::<serde_json::Value>(&r.json) {
                                    problems.borrow_mut().2 = Some(format!("compact JSON does not parse: {e}"));
                                }
                                if let Err(e) = serde_json::from_slice::<serde_json::Value>(&r.json_pretty) {
                                    problems.borrow_mut().2 = Some(format!("pretty JSON does not parse: {e}"));
                                }
                                if concurrent_render > 0 {
                                    probe("e4.concurrent_render");
                                    let other = dumpgen::tiny_dump(concurrent_render == 2);
                                    let at = ch("e4.concurrent_render.at", 12) as u64;
                                    for which in 0..4 {
                                        let mut w = InterleavingWriter { out: Vec::new(), calls: 0, at, other: Some(other.clone()) };
                                        let ok = match which {
                                            0 => state.print_json(&mut w, false).is_ok(),
                                            1 => state.print_json(&mut w, true).is_ok(),
                                            2 => state.print(&mut w).is_ok(),
                                            _ => state.print_brief(&mut w).is_ok(),
                                        };
                                        let want = [&r.json, &r.json_pretty, &r.text, &r.brief][which];
                                        if !ok || &w.out != want {
                                            problems.borrow_mut().3 = Some(format!(
                                                "{} differs when another thread renders a {}-bit dump meanwhile {}",
                                                ["JSON", "pretty JSON", "text report", "brief text"][which],
                                                if concurrent_render == 2 { 64 } else { 32 },
                                                first_diff(want, &w.out)
                                            ));
                                        }
                                    }
                                }
                                if let Some((fail_at, short)) = writer_plan {
                                    probe("e4.writer_fault");
                                    for which in 0..4 {
                                        let mut w = FailingWriter { fail_at, written: 0, short, calls: 0 };
                                        let total = [r.json.len(), r.json_pretty.len(), r.text.len(), r.brief.len()][which];
                                        let ok = match which {
                                            0 => state.print_json(&mut w, false).is_ok(),
                                            1 => state.print_json(&mut w, true).is_ok(),
                                            2 => state.print(&mut w).is_ok(),
                                            _ => state.print_brief(&mut w).is_ok(),
                                        };
                                        if ok && total > fail_at {
                                            problems.borrow_mut().1 = Some("rendering reported success although the writer failed".to_string());
                                        }
                                    }
                                }
                            }
                            outputs.borrow_mut()[slot] = Some(r);
                        }
                        Err(e) => {
                            problems.borrow_mut().0 = Some(e);
                            outputs.borrow_mut()[slot] = Some(Renderings {
                                status: "render-error".into(),
                                json: vec![],
                                json_pretty: vec![],
                                text: vec![],
                                brief: vec![],
                            });
                        }
                    }
                }
                Err(e) => {
                    outputs.borrow_mut()[slot] = Some(Renderings {
                        status: format!("process-error:{}", e.name()),
                        json: vec![],
                        json_pretty: vec![],
                        text: vec![],
                        brief: vec![],
                    });
                }
            }
        });
        task_ids.push(id);
    }
    // C03: a companion user of the same symbolizer may be cancelled mid-way
    let cancel_at = if mode.faults && mode.companions > 0 && chance("e4.cancel_companion", 1, 2) { Some(1 + ch("e4.cancel_at", 40) as u64) } else { None };
    let mut cancelled = false;
    simkit::alloc::reset_peak();
    let base_live = simkit::alloc::live();
    let stop = loop {
        match ex.step() {
            Ok(_) => {
                if let Some(c) = cancel_at {
                    let t = *task_ids.last().unwrap();
                    if !cancelled && !ex.is_done(t) && ex.task_polls(t) >= c {
                        ex.cancel(t);
                        cancelled = true;
                    }
                }
            }
            Err(s) => break s,
        }
    };
    let peak = simkit::alloc::peak() - base_live;
    let requests = if shared.use_http { reqwest::sim::request_count() } else { calls.load(Ordering::SeqCst) as usize };
    if shared.use_http {
        supply_faults += reqwest::sim::snapshots().iter().filter(|s| s.saw_err || s.timed_out || s.head_code != Some(200) || s.planned_end != BodyEnd::Clean).count() as u32;
        reqwest::sim::uninstall();
    }
    let outs: Vec<Renderings> = outputs
        .borrow()
        .iter()
        .enumerate()
        .filter(|(i, _)| !(cancelled && *i == mode.companions as usize))
        .map(|(_, o)| {
            o.clone().unwrap_or(Renderings {
                status: "unfinished".into(),
                json: vec![],
                json_pretty: vec![],
                text: vec![],
                brief: vec![],
            })
        })
        .collect();
    let p = problems.borrow().clone();
    let frames_v: Vec<usize> = frames.borrow().clone();
    let per_key_v: BTreeMap<String, (u32, u32)> = per_key.lock().unwrap().iter().map(|(k, v)| (k.clone(), (v.0, v.2))).collect();
    let pending_v = {
        let p = provider.inner.pending_stats();
        (p.symbols_requested, p.symbols_processed)
    };
    ExecOut {
        outputs: outs,
        frames: frames_v,
        stop: match stop {
            Stop::AllDone => "done".into(),
            Stop::Deadlock(t) => format!("deadlock({} tasks)", t.len()),
            Stop::Budget => "budget".into(),
        },
        steps: ex.steps,
        peak_bytes: peak,
        fill_calls: provider.fill_calls.load(Ordering::SeqCst),
        walk_calls: provider.walk_calls.load(Ordering::SeqCst),
        requests,
        render_problem: p.0,
        writer_problem: p.1,
        json_problem: p.2,
        concurrent_render_problem: p.3,
        supply_faults,
        cancelled_companion: cancelled,
        per_key: per_key_v,
        pending: pending_v,
    }
}

fn first_diff(a: &[u8], b: &[u8]) -> String {
    let n = a.iter().zip(b.iter()).position(|(x, y)| x != y).unwrap_or(a.len().min(b.len()));
    // name the JSON key / text line around the difference rather than offsets (stable signature)
    let ctx = |s: &[u8]| -> String {
        let start = s[..n.min(s.len())].iter().rposition(|&c| c == b'\n' || c == b'{' || c == b',').map(|i| i + 1).unwrap_or(0);
        let end = (n + 1).min(s.len());
        let seg = String::from_utf8_lossy(&s[start..end]).to_string();
        let key: String = seg.chars().filter(|c| !c.is_ascii_digit()).take(60).collect();
        key.trim().to_string()
    };
    format!("near `{}`", ctx(a))
}

// ---------------------------------------------------------------------------------------------
// C13

pub fn run_c13() -> Outcome {
    let many = true;
    let use_http = chance("c13.http", 1, 4);
    let warm = if use_http { Some(Scratch::new("e4warm")) } else { None };
    let world = dumpgen::gen_world(&WorldOpts {
        max_threads: 8,
        many_threads: many,
        adversarial: chance("c13.adversarial", 1, 4),
        need_debug_ids: use_http,
        hostile_symbols: false,
        all_archs: true,
        focus_unwind_expr: false,
    });
    // a quarter of the worlds come with an "extra JSON" file (certificates per module — some
    // modules listed under two certificates —, a CPU microcode version), in the object form or in
    // the string-that-holds-an-object form
    let evil: Option<(Scratch, PathBuf)> = if chance("c13.evil_json", 1, 4) {
        probe("e4.evil_json");
        let sc = Scratch::new("e4evil");
        let leaves: Vec<String> = world.modules.iter().map(|m| crate::common::leaf(&m.code_file).to_string()).collect();
        let l0 = leaves.first().cloned().unwrap_or_default();
        let l1 = leaves.get(1).cloned().unwrap_or_else(|| "other.dll".into());
        let info = json!({"Cert A": [l0, l1], "Cert B": [l0], "Cert C": [l1, "other.dll"], "Cert D": [l0], "Cert E": [l0]});
        let doc = if chance("c13.evil_json.as_string", 1, 2) {
            json!({"ModuleSignatureInfo": info.to_string(), "CPUMicrocodeVersion": "0x1234"})
        } else {
            json!({"ModuleSignatureInfo": info, "CPUMicrocodeVersion": "0xabc"})
        };
        let p = sc.root.join("extra.json");
        std::fs::write(&p, doc.to_string()).expect("write extra json");
        Some((sc, p))
    } else {
        None
    };
    let shared = Shared {
        dump: Arc::new(world.dump.clone()),
        modules: Arc::new(world.modules.clone()),
        options: ch("c13.options", 3) as u8,
        use_http,
        warm_root: warm.as_ref().map(|w| w.root.clone()),
        evil_path: evil.as_ref().map(|(_, p)| p.clone()),
    };
    let nexec = 3 + ch("c13.nexec", 4) as usize;
    let _ = &evil;
    let companions = ch("c13.companions", 3);
    // budgets from what the processor can actually use as a stack (any thread may be walked from
    // the exception context, i.e. inside the largest region)
    let (stack_budget, nthreads, _max_region) = measure(&world.dump, &world);
    let mut digests: Vec<u64> = Vec::new();
    let mut baseline: Option<ExecOut> = None;
    let option_name = ["stable_basic", "stable_all", "unstable_all"][shared.options as usize % 3];
    let mut info = json!({"world": world.describe, "options": option_name, "supplier": if use_http { "HttpSymbolSupplier over reqwest-sim" } else { "GatedSupplier" }, "executions": nexec, "companions": companions});
    let mut exec_info = Vec::new();
    let mut diff_note: Option<serde_json::Value> = None;
    let result = (|| -> simkit::Check {
        for i in 0..nexec {
            let sh = shared.clone();
            let mode = ExecMode { faults: false, companions: if i == 0 { 0 } else { companions }, use_warm_cache: use_http && i >= 1 && (i == 1 || chance("c13.warm_cache", 1, 2)), previous_job: if i == 0 { 0 } else { ch("c13.previous_job", 3) as u8 }, concurrent_render: if i == 0 { 0 } else { ch("c13.concurrent_render", 3) as u8 } };
            let verbose = simkit::with_ctx(|c| c.verbose);
            let rep = simkit::runner::run_sub_nested("c13.exec", i as u64, i == 0, verbose, move || execute(sh, mode, stack_budget, nthreads));
            for (k, v) in &rep.probes {
                simkit::probe_add(k, *v);
            }
            simkit::ctx::add_sub_time(rep.sim_ns, rep.events);
            for l in rep.log.iter().take(120) {
                simkit::log_line(|| format!("[exec {i}] {l}"));
            }
            let out = match rep.value {
                Ok(o) => o,
                Err(v) => {
                    // a panic or budget trip inside an execution is C03's subject, but it also
                    // breaks "always yields": report it under its own oracle
                    return Err(Violation::new(format!("c13.execution_failed/{}", v.oracle), v.detail));
                }
            };
            digests.push(rep.digest);
            exec_info.push(json!({"execution": i, "steps": out.steps, "supplier_calls_or_requests": out.requests, "status": out.outputs[0].status, "json_len": out.outputs[0].json.len(), "trace_digest": format!("{:016x}", rep.digest)}));
            simkit::ensure!(out.stop == "done", "c13.not_finished", "an execution ended with {}", out.stop);
            if let Some(p) = &out.concurrent_render_problem {
                return Err(Violation::new("c13.render_disturbed", format!("a report was rendered differently while another thread of the process was rendering an unrelated dump ({p})")));
            }
            // companions inside one execution must agree with the main task
            for (ci, c) in out.outputs.iter().enumerate().skip(1) {
                if c != &out.outputs[0] {
                    diff_note = Some(diff_values(&out.outputs[0], c));
                    return Err(mismatch_violation("c13.companion_differs", "two concurrent processings of the same dump through one symbolizer rendered differently", &shared.modules, &out.outputs[0], c));
                }
                let _ = ci;
            }
            match &baseline {
                None => baseline = Some(out),
                Some(b) => {
                    if out.outputs[0] != b.outputs[0] {
                        diff_note = Some(diff_values(&b.outputs[0], &out.outputs[0]));
                        return Err(mismatch_violation("c13.output_differs", "the same dump and symbols rendered differently under another schedule / hash seed", &shared.modules, &b.outputs[0], &out.outputs[0]));
                    }
                }
            }
        }
        Ok(())
    })();
    info["executions_detail"] = json!(exec_info);
    if let Some(d) = diff_note {
        info["difference"] = d;
    }
    let mut d = digests.clone();
    d.sort();
    d.dedup();
    if d.len() >= 2 {
        probe("e4.schedules_differ");
    }
    let mut ds = digests.clone();
    ds.sort();
    let key = simkit::rng::mix(&[crate::common::fnv(&world.dump), crate::common::fnv(&ds.iter().flat_map(|x| x.to_le_bytes()).collect::<Vec<u8>>())]);
    Outcome {
        result,
        nontrivial: world.threads.len() >= 2 && d.len() >= 2,
        key,
        info,
    }
}

fn json_diff_path(a: &serde_json::Value, b: &serde_json::Value, path: &str) -> Option<String> {
    use serde_json::Value;
    match (a, b) {
        (Value::Object(x), Value::Object(y)) => {
            let mut keys: Vec<&String> = x.keys().chain(y.keys()).collect();
            keys.sort();
            keys.dedup();
            for k in keys {
                match (x.get(k), y.get(k)) {
                    (Some(p), Some(q)) => {
                        if let Some(d) = json_diff_path(p, q, &format!("{path}.{k}")) {
                            return Some(d);
                        }
                    }
                    _ => return Some(format!("{path}.{k} (present in one only)")),
                }
            }
            // same content; maybe different key order
            if x.keys().ne(y.keys()) {
                return Some(format!("{path} (key order)"));
            }
            None
        }
        (Value::Array(x), Value::Array(y)) => {
            if x.len() != y.len() {
                return Some(format!("{path}[] (length)"));
            }
            for (p, q) in x.iter().zip(y.iter()) {
                if let Some(d) = json_diff_path(p, q, &format!("{path}[]")) {
                    return Some(d);
                }
            }
            None
        }
        (p, q) => {
            if p == q {
                None
            } else {
                Some(path.to_string())
            }
        }
    }
}

fn value_at<'a>(v: &'a serde_json::Value, b: &'a serde_json::Value, path: &mut Vec<String>) -> Option<(serde_json::Value, serde_json::Value)> {
    use serde_json::Value;
    match (v, b) {
        (Value::Object(x), Value::Object(y)) => {
            for (k, p) in x {
                match y.get(k) {
                    Some(q) => {
                        path.push(k.clone());
                        if let Some(r) = value_at(p, q, path) {
                            return Some(r);
                        }
                        path.pop();
                    }
                    None => return Some((p.clone(), Value::Null)),
                }
            }
            None
        }
        (Value::Array(x), Value::Array(y)) => {
            if x.len() != y.len() {
                return Some((json!(x.len()), json!(y.len())));
            }
            for (i, (p, q)) in x.iter().zip(y.iter()).enumerate() {
                path.push(i.to_string());
                if let Some(r) = value_at(p, q, path) {
                    return Some(r);
                }
                path.pop();
            }
            None
        }
        (p, q) => {
            if p == q {
                None
            } else {
                Some((p.clone(), q.clone()))
            }
        }
    }
}

fn diff_values(a: &Renderings, b: &Renderings) -> serde_json::Value {
    if let (Ok(x), Ok(y)) = (serde_json::from_slice::<serde_json::Value>(&a.json), serde_json::from_slice::<serde_json::Value>(&b.json)) {
        let mut path = Vec::new();
        if let Some((p, q)) = value_at(&x, &y, &mut path) {
            let t = |v: serde_json::Value| -> String { v.to_string().chars().take(200).collect() };
            return json!({"path": path.join("."), "baseline": t(p), "other": t(q), "symbol_stats_baseline": x.get("modules").map(|m| m.to_string().chars().take(600).collect::<String>()), "symbol_stats_other": y.get("modules").map(|m| m.to_string().chars().take(600).collect::<String>())});
        }
    }
    json!(null)
}

/// From the JSON report itself: file names listed more than once, and file names of modules
/// that share (debug_file, debug_id) with another listed module.
fn reported_dups_and_twins(r: &Renderings) -> (Vec<String>, Vec<String>) {
    let mut dups = Vec::new();
    let mut twins = Vec::new();
    let v: serde_json::Value = match serde_json::from_slice(&r.json) {
        Ok(v) => v,
        Err(_) => return (dups, twins),
    };
    let mods = match v.get("modules").and_then(|m| m.as_array()) {
        Some(m) => m,
        None => return (dups, twins),
    };
    let s = |m: &serde_json::Value, k: &str| m.get(k).and_then(|f| f.as_str()).unwrap_or("").to_string();
    let mut by_name: BTreeMap<String, u32> = BTreeMap::new();
    let mut by_id: BTreeMap<(String, String), u32> = BTreeMap::new();
    for m in mods {
        *by_name.entry(s(m, "filename")).or_insert(0) += 1;
        let id = (s(m, "debug_file"), s(m, "debug_id"));
        if !id.0.is_empty() && !id.1.is_empty() {
            *by_id.entry(id).or_insert(0) += 1;
        }
    }
    for m in mods {
        let name = s(m, "filename");
        if by_name.get(&name).copied().unwrap_or(0) > 1 && !dups.contains(&name) {
            dups.push(name.clone());
        }
        if by_id.get(&(s(m, "debug_file"), s(m, "debug_id"))).copied().unwrap_or(0) > 1 && !twins.contains(&name) {
            twins.push(name);
        }
    }
    (dups, twins)
}

/// Leaf names shared by two or more modules of the world.
fn duplicate_leaves(mods: &[ModSpec]) -> Vec<String> {
    let mut seen: BTreeMap<String, u32> = BTreeMap::new();
    for m in mods {
        *seen.entry(crate::common::leaf(&m.code_file).to_string()).or_insert(0) += 1;
    }
    seen.into_iter().filter(|(_, n)| *n > 1).map(|(k, _)| k).collect()
}

/// The per-module symbol statistics of same-named modules removed (JSON renderings only; the
/// text renderings do not contain them).
fn mask_same_leaf_stats(r: &Renderings, dups: &[String]) -> Option<(serde_json::Value, serde_json::Value, Vec<u8>, Vec<u8>)> {
    let strip = |bytes: &[u8]| -> Option<serde_json::Value> {
        let mut v: serde_json::Value = serde_json::from_slice(bytes).ok()?;
        if let Some(mods) = v.get_mut("modules").and_then(|m| m.as_array_mut()) {
            for m in mods {
                let is_dup = m.get("filename").and_then(|f| f.as_str()).map(|f| dups.iter().any(|d| d == f)).unwrap_or(false);
                if is_dup {
                    if let Some(o) = m.as_object_mut() {
                        for k in ["missing_symbols", "loaded_symbols", "corrupt_symbols", "symbol_url", "debug_file", "debug_id"] {
                            o.remove(k);
                        }
                    }
                }
            }
        }
        Some(v)
    };
    Some((strip(&r.json)?, strip(&r.json_pretty)?, r.text.clone(), r.brief.clone()))
}

/// File names (leaves) of modules that share their debug identity — and with it the symbol
/// server path and the cache entry — with another module of the dump.
fn twin_leaves(mods: &[ModSpec]) -> Vec<String> {
    let mut seen: BTreeMap<String, u32> = BTreeMap::new();
    for m in mods {
        if let Some(r) = &m.rel {
            *seen.entry(r.clone()).or_insert(0) += 1;
        }
    }
    mods.iter()
        .filter(|m| m.rel.as_ref().map(|r| seen.get(r).copied().unwrap_or(0) > 1).unwrap_or(false))
        .map(|m| crate::common::leaf(&m.code_file).to_string())
        .collect()
}

/// `symbol_url` of the twin modules removed (JSON renderings only).
fn mask_twin_symbol_urls(r: &Renderings, twins: &[String]) -> Option<(serde_json::Value, serde_json::Value, Vec<u8>, Vec<u8>)> {
    let strip = |bytes: &[u8]| -> Option<serde_json::Value> {
        let mut v: serde_json::Value = serde_json::from_slice(bytes).ok()?;
        if let Some(mods) = v.get_mut("modules").and_then(|m| m.as_array_mut()) {
            for m in mods {
                let is_twin = m.get("filename").and_then(|f| f.as_str()).map(|f| twins.iter().any(|d| d == f)).unwrap_or(false);
                if is_twin {
                    if let Some(o) = m.as_object_mut() {
                        o.remove("symbol_url");
                    }
                }
            }
        }
        Some(v)
    };
    Some((strip(&r.json)?, strip(&r.json_pretty)?, r.text.clone(), r.brief.clone()))
}

pub const SIG_SAME_LEAF: &str = "c13.same_leaf_symbol_stats";
pub const SIG_TWIN_URL: &str = "c13.twin_modules_symbol_url";

/// Classify a rendering mismatch.  The two listed known findings (statistics of same-named
/// modules follow the completion order; the symbol URL of modules sharing one debug identity
/// depends on whose download reached the cache first) get their own fixed signatures *only*
/// when nothing else differs.
fn mismatch_violation(oracle: &str, what: &str, mods: &[ModSpec], a: &Renderings, b: &Renderings) -> Violation {
    // the world's view and the report's own view (a module's name in the dump can differ from
    // the world's: the "tail string" shape replaces it)
    let mut dups = duplicate_leaves(mods);
    let mut twins = twin_leaves(mods);
    for r in [a, b] {
        let (d, t) = reported_dups_and_twins(r);
        for x in d {
            if !dups.contains(&x) {
                dups.push(x);
            }
        }
        for x in t {
            if !twins.contains(&x) {
                twins.push(x);
            }
        }
    }
    let same_leaf = || {
        Violation::new(
            SIG_SAME_LEAF,
            "two modules share a file name: the per-module symbol statistics in the JSON report (symbol_url / loaded / missing / corrupt, looked-up debug info) are those of whichever module's lookup finished last",
        )
    };
    if a.status == b.status {
        if !dups.is_empty() {
            if let (Some(x), Some(y)) = (mask_same_leaf_stats(a, &dups), mask_same_leaf_stats(b, &dups)) {
                if x == y {
                    return same_leaf();
                }
            }
        }
        if !twins.is_empty() {
            if let (Some(x), Some(y)) = (mask_twin_symbol_urls(a, &twins), mask_twin_symbol_urls(b, &twins)) {
                if x == y {
                    return Violation::new(
                        SIG_TWIN_URL,
                        "two modules share one debug identity (one symbol-server path, one cache entry) under different file names: over HTTP the symbol_url reported for each is the request URL of whichever module's download put the entry into the cache, or its own when it downloaded itself",
                    );
                }
                // both findings in one run
                if !dups.is_empty() {
                    let both = |r: &Renderings| -> Option<(serde_json::Value, serde_json::Value)> {
                        let (j, p, _, _) = mask_twin_symbol_urls(r, &twins)?;
                        let again = Renderings { status: r.status.clone(), json: serde_json::to_vec(&j).ok()?, json_pretty: serde_json::to_vec(&p).ok()?, text: r.text.clone(), brief: r.brief.clone() };
                        let (j2, p2, _, _) = mask_same_leaf_stats(&again, &dups)?;
                        Some((j2, p2))
                    };
                    if let (Some(x), Some(y)) = (both(a), both(b)) {
                        if x == y && a.text == b.text && a.brief == b.brief {
                            return same_leaf();
                        }
                    }
                }
            }
        }
    }
    Violation::new(oracle, format!("{what} ({})", which_differs(a, b)))
}

fn which_differs(a: &Renderings, b: &Renderings) -> String {
    if a.status != b.status {
        return format!("status {} vs {}", a.status, b.status);
    }
    if a.json != b.json {
        if let (Ok(x), Ok(y)) = (serde_json::from_slice::<serde_json::Value>(&a.json), serde_json::from_slice::<serde_json::Value>(&b.json)) {
            if let Some(p) = json_diff_path(&x, &y, "$") {
                return format!("JSON differs at {p}");
            }
        }
        return format!("JSON differs {}", first_diff(&a.json, &b.json));
    }
    if a.json_pretty != b.json_pretty {
        return format!("pretty JSON differs {}", first_diff(&a.json_pretty, &b.json_pretty));
    }
    if a.text != b.text {
        return format!("text report differs {}", first_diff(&a.text, &b.text));
    }
    if a.brief != b.brief {
        return format!("brief text differs {}", first_diff(&a.brief, &b.brief));
    }
    "identical".into()
}

// ---------------------------------------------------------------------------------------------
// C03

pub fn run_c03() -> Outcome {
    let use_http = chance("c03.http", 1, 3);
    let mut world: World = dumpgen::gen_world(&WorldOpts {
        max_threads: 6,
        many_threads: true,
        adversarial: true,
        need_debug_ids: use_http,
        hostile_symbols: true,
        all_archs: true,
        focus_unwind_expr: chance("c03.focus_unwind_expr", 1, 4),
    });
    let mut faults: Vec<String> = Vec::new();
    let storage = if chance("c03.storage_fault", 1, 3) {
        let k = dumpgen::storage_fault(&mut world.dump);
        probe("e4.storage_fault");
        faults.push(format!("storage: {k}"));
        true
    } else {
        false
    };
    for m in &world.modules {
        if m.sym_kind == "corrupted" || m.sym_kind == "random grammar" {
            faults.push(format!("symbols: {}", m.sym_kind));
        }
    }
    if world.describe["threads"].as_array().map(|a| a.iter().any(|t| matches!(t["shape"].as_str(), Some("cyclic frame pointer" | "descending frame pointer" | "sp extreme" | "fp extreme")))).unwrap_or(false) {
        faults.push("adversarial stack shape".into());
    }
    if world.describe["modules"].as_array().is_some() && world.arch == dumpgen::Arch::X86 {
        probe("e4.stack_win");
    }
    let shared = Shared {
        dump: Arc::new(world.dump.clone()),
        modules: Arc::new(world.modules.clone()),
        options: ch("c03.options", 3) as u8,
        use_http,
        warm_root: None,
        evil_path: None,
    };
    // budgets come from what the processor will actually see: the parsed (possibly damaged) dump
    let (stack_budget, nthreads, max_region) = measure(&world.dump, &world);
    let companions = ch("c03.companions", 2);
    let sym_total: usize = world.modules.iter().map(|m| m.sym.as_ref().map(|s| s.len()).unwrap_or(0)).sum();
    // A walk may legitimately yield one frame per stack byte (that is the property's own bound);
    // a frame carries a full CPU context (0.7-1.3 KB) and is rendered four times, once as a
    // serde_json tree (measured: up to ~10 KB of peak heap per frame). The budget therefore has
    // a per-permitted-frame term; the per-input-byte term covers symbols and streams. The point
    // is to catch memory demanded out of proportion to the input.
    // Every physical frame may expand into 1 + k reported frames, k = the inline records of its
    // function: the per-frame term is multiplied by the largest such 1 + k of the world's symbols.
    let inline_factor = world.modules.iter().map(|m| m.sym.as_deref().map(max_inlines_per_func).unwrap_or(0)).max().unwrap_or(0) as isize + 1;
    let mem_budget: isize = (256 << 20)
        + (1 + companions as isize) * (16 * 1024 * stack_budget as isize * inline_factor + 4096 * (world.dump.len() + sym_total) as isize);
    // hard cap: a runaway allocation aborts the worker, the supervisor attributes it to this run
    let sh = shared.clone();
    let verbose = simkit::with_ctx(|c| c.verbose);
    let rep = simkit::runner::run_sub_nested("c03.exec", 0, false, verbose, move || {
        simkit::alloc::set_cap(3usize << 30);
        execute(sh, ExecMode { faults: true, companions, use_warm_cache: false, previous_job: 0, concurrent_render: 0 }, stack_budget, nthreads)
    });
    for (k, v) in &rep.probes {
        simkit::probe_add(k, *v);
    }
    simkit::ctx::add_sub_time(rep.sim_ns, rep.events);
    for l in rep.log.iter().take(200) {
        simkit::log_line(|| format!("[exec] {l}"));
    }
    let option_name = ["stable_basic", "stable_all", "unstable_all"][shared.options as usize % 3];
    let mut info = json!({"world": world.describe, "options": option_name, "supplier": if use_http { "HttpSymbolSupplier over reqwest-sim" } else { "GatedSupplier" }, "faults": faults, "companions": companions});
    let mut accepted = false;
    let mut supply_faults = 0;
    let result = (|| -> simkit::Check {
        let out = match rep.value {
            Ok(o) => o,
            Err(v) => return Err(v), // panic (oracle `panic`) or budget trip
        };
        supply_faults = out.supply_faults;
        if supply_faults > 0 {
            probe("e4.supply_fault");
        }
        info["execution"] = json!({"steps": out.steps, "status": out.outputs[0].status, "frames_per_thread": out.frames.iter().take(12).collect::<Vec<_>>(), "fill_symbol_calls": out.fill_calls, "walk_frame_calls": out.walk_calls, "peak_heap_bytes": out.peak_bytes, "requests": out.requests, "supply_faults": out.supply_faults, "cancelled_companion": out.cancelled_companion});
        // 2. bounded liveness
        simkit::ensure!(out.stop == "done", "c03.not_finished", "processing ended with {} (steps {})", out.stop, if out.steps > 1_000_000 { "> 10^6" } else { "few" });
        let st = &out.outputs[0].status;
        accepted = st == "ok";
        // 5. result is Ok(state) or Err(ProcessError)/read error; Ok always renders
        if let Some(p) = &out.render_problem {
            return Err(Violation::new("c03.render_failed", strip_digits(p)));
        }
        if let Some(p) = &out.json_problem {
            return Err(Violation::new("c03.json_invalid", strip_digits(p)));
        }
        if let Some(p) = &out.writer_problem {
            return Err(Violation::new("c03.writer_error_swallowed", p.clone()));
        }
        simkit::ensure!(st == "ok" || st.starts_with("read-error") || st.starts_with("process-error"), "c03.status", "unexpected status {}", st);
        // 3. frame bound
        for (ti, &n) in out.frames.iter().enumerate() {
            // a thread named by the exception stream (or by the breakpad-info stream) may be walked
            // from another context, whose stack pointer selects another region: use the largest
            let may_use_other_context = world.threads.get(ti).map(|t| Some(t.id) == world.crashing_id || world.threads.iter().filter(|o| o.id == t.id).count() > 1).unwrap_or(true);
            let bound = if storage || may_use_other_context || world.uses_breakpad_info { max_region + 2 } else { world.threads.get(ti).map(|t| region_bound(&world, t)).unwrap_or(max_region) + 2 };
            simkit::ensure!(n as u64 <= bound, "c03.frame_bound", "a thread was walked for more frames than its stack memory has bytes (plus two)");
        }
        // 4. memory budget
        simkit::ensure!(out.peak_bytes <= mem_budget, "c03.memory_budget", "peak live heap exceeded 256 MiB + (16 KiB x permitted frames x (1 + inline records per function) + 4096 x input bytes) per concurrent processing");
        Ok(())
    })();
    if accepted {
        probe(match world.arch {
            dumpgen::Arch::X86 => "e4.arch.x86",
            dumpgen::Arch::Amd64 => "e4.arch.amd64",
            dumpgen::Arch::Arm => "e4.arch.arm",
            dumpgen::Arch::Arm64 => "e4.arch.arm64",
            dumpgen::Arch::Arm64Old => "e4.arch.arm64_old",
            dumpgen::Arch::Mips => "e4.arch.mips",
            dumpgen::Arch::Ppc => "e4.arch.ppc",
            dumpgen::Arch::Ppc64 => "e4.arch.ppc64",
            dumpgen::Arch::Sparc => "e4.arch.sparc",
        });
    }
    let fault_desc = format!("{:?}/{}", faults, supply_faults);
    let key = simkit::rng::mix(&[crate::common::fnv(&world.dump), crate::common::fnv(fault_desc.as_bytes()), rep.digest]);
    Outcome {
        result,
        nontrivial: accepted && (!faults.is_empty() || supply_faults > 0),
        key,
        info,
    }
}

fn strip_digits(s: &str) -> String {
    s.chars().map(|c| if c.is_ascii_digit() { '#' } else { c }).collect()
}

/// What the processor can use as a thread's stack: its own stack memory or the region that
/// contains its stack pointer.
fn region_bound(world: &World, t: &dumpgen::ThreadSpec) -> u64 {
    let mut b = t.stack_len as u64;
    for &(base, len) in &world.regions {
        let end = base.wrapping_add(len);
        let inside = if end >= base { t.sp >= base && t.sp < end } else { t.sp >= base || t.sp < end };
        if inside {
            b = b.max(len);
        }
    }
    b.max(32)
}

/// Upper bound on the inline frames one physical frame can expand into: the largest number of
/// INLINE lines between two FUNC lines (whatever the parser makes of them).
fn max_inlines_per_func(sym: &[u8]) -> usize {
    let (mut best, mut cur) = (0usize, 0usize);
    for line in sym.split(|&b| b == b'\n') {
        if line.starts_with(b"INLINE ") {
            cur += 1;
            best = best.max(cur);
        } else if line.starts_with(b"FUNC ") {
            cur = 0;
        }
    }
    best
}

/// (sum of usable stack bytes, thread count, largest memory region) of the dump as parsed.
fn measure(bytes: &[u8], world: &World) -> (u64, u64, u64) {
    let mut total = world.total_stack_bytes;
    let mut n = world.threads.len() as u64;
    let mut max_region = world.threads.iter().map(|t| t.stack_len as u64).max().unwrap_or(0).max(32);
    if let Ok(d) = simkit::runner::catch(|| Minidump::read(bytes.to_vec())) {
        if let Ok(d) = d {
            if let Ok(Some(mem)) = simkit::runner::catch(|| d.get_memory()) {
                let sizes: Vec<u64> = mem.iter().map(|m| m.size()).collect();
                max_region = max_region.max(sizes.iter().copied().max().unwrap_or(0));
            }
            if let Ok(Ok(tl)) = simkit::runner::catch(|| d.get_stream::<minidump::MinidumpThreadList>()) {
                // a thread's stack is what its own descriptor says (a copy of the memory-list
                // entry in a well-formed dump, not necessarily in a damaged one), as far as the
                // file has the bytes
                for t in &tl.threads {
                    let sz = t.raw.stack.memory.data_size as u64;
                    if sz <= bytes.len() as u64 {
                        max_region = max_region.max(sz);
                    }
                }
                n = n.max(tl.threads.len() as u64);
                total = total.max(tl.threads.len() as u64 * max_region);
            }
        }
    }
    (total, n, max_region)
}

// ---------------------------------------------------------------------------------------------
// C12, pipeline scenario: the lookups are issued by the real join_all of real stack walkers

pub fn run_c12_pipeline() -> Outcome {
    let world = dumpgen::gen_world(&WorldOpts {
        max_threads: 8,
        many_threads: true,
        adversarial: false,
        need_debug_ids: false,
        hostile_symbols: false,
        all_archs: false,
        focus_unwind_expr: false,
    });
    let shared = Shared {
        dump: Arc::new(world.dump.clone()),
        modules: Arc::new(world.modules.clone()),
        options: ch("c12p.options", 3) as u8,
        use_http: false,
        warm_root: None,
        evil_path: None,
    };
    let companions = ch("c12p.companions", 3);
    let (stack_budget, nthreads, _max_region) = measure(&world.dump, &world);
    // Two executions of the real pipeline on the same dump and symbols: the reference one on the
    // all-zero tape (a supplier that never suspends, FIFO polling, no companions) and the one
    // under a drawn schedule with a suspending supplier.  "Every requester of a module observes
    // the same outcome" is judged on what the requesters — the per-thread stack walkers — made
    // of it: the rendered reports of the two executions must be equal.
    let verbose = simkit::with_ctx(|c| c.verbose);
    let mut outs: Vec<ExecOut> = Vec::new();
    let mut digest = 0u64;
    let mut failed: Option<Violation> = None;
    for i in 0..2u64 {
        let sh = shared.clone();
        let mode = ExecMode { faults: false, companions: if i == 0 { 0 } else { companions }, use_warm_cache: false, previous_job: 0, concurrent_render: 0 };
        let rep = simkit::runner::run_sub_nested("c12p.exec", i, i == 0, verbose, move || execute(sh, mode, stack_budget, nthreads));
        for (k, v) in &rep.probes {
            simkit::probe_add(k, *v);
        }
        simkit::ctx::add_sub_time(rep.sim_ns, rep.events);
        for l in rep.log.iter().take(120) {
            simkit::log_line(|| format!("[exec {i}] {l}"));
        }
        digest = simkit::rng::mix(&[digest, rep.digest]);
        match rep.value {
            Ok(o) => outs.push(o),
            Err(v) => {
                failed = Some(Violation::new(format!("c12.execution_failed/{}", v.oracle), v.detail));
                break;
            }
        }
    }
    probe("e2.pipeline");
    let info = match outs.last() {
        Some(out) => json!({"scenario": "process_minidump (real join_all of real walkers) over the gated supplier, compared with the same processing over a never-suspending supplier", "world": world.describe, "companions": companions, "steps": out.steps, "supplier_calls": out.per_key.values().map(|v| v.0).sum::<u32>(), "distinct_modules_asked": out.per_key.len(), "pending": [out.pending.0, out.pending.1]}),
        None => json!({"scenario": "process_minidump over the gated supplier", "world": world.describe}),
    };
    let result = (|| -> simkit::Check {
        if let Some(v) = failed {
            return Err(v);
        }
        for out in &outs {
            simkit::ensure!(out.stop == "done", "c12.deadlock", "processing ended with {}: a lookup was lost or deadlocked", out.stop);
            for (_k, (calls, max_inflight)) in &out.per_key {
                simkit::ensure!(*max_inflight <= 1, "c12.supplier_concurrent", "two locate_symbols calls for the same module were in flight at once");
                simkit::ensure!(*calls <= 1, "c12.supplier_asked_twice", "the supplier was asked more than once for the same module");
            }
            let n = out.per_key.len() as u64;
            simkit::ensure!(
                out.pending.0 == n && out.pending.1 == n,
                "c12.pending_stats",
                "pending counters do not end at requested = processed = number of distinct modules (requested-distinct = {}, processed-distinct = {})",
                out.pending.0 as i64 - n as i64,
                out.pending.1 as i64 - n as i64
            );
        }
        let (reference, scheduled) = (&outs[0], &outs[1]);
        for c in scheduled.outputs.iter() {
            if c != &reference.outputs[0] {
                let v = mismatch_violation("c12.requesters_disagree", "walkers that asked for a module while its lookup was suspended ended with a different result than with a supplier that answers at once", &shared.modules, &reference.outputs[0], c);
                // the per-module statistics of two modules sharing a file name are C13's listed
                // finding and say nothing about what a requester observed
                if v.oracle == SIG_SAME_LEAF || v.oracle == SIG_TWIN_URL {
                    probe("e2.pipeline_same_leaf_masked");
                    continue;
                }
                return Err(v);
            }
        }
        Ok(())
    })();
    let out = match outs.last() {
        Some(o) => o,
        None => {
            return Outcome { result, nontrivial: false, key: simkit::rng::mix(&[crate::common::fnv(&world.dump), digest]), info };
        }
    };
    Outcome {
        result,
        nontrivial: world.threads.len() >= 2 && out.per_key.len() >= 1 && (companions > 0 || world.threads.len() >= 2),
        key: simkit::rng::mix(&[crate::common::fnv(&world.dump), digest]),
        info,
    }
}
