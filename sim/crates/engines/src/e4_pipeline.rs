use simkit::Outcome;
pub const RULE_C13: &str = "todo";
pub const RULE_C03: &str = "todo";
pub fn run_c13() -> Outcome { todo!() }
pub fn run_c03() -> Outcome { todo!() }
