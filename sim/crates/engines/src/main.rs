//! `sim` — supervisor, worker and replay entry points of the deterministic simulator.
//!
//!   sim run <PROP> <quick|thorough>      supervisor: fan out seeds to worker processes, triage, evidence
//!   sim worker …                          (internal)
//!   sim replay <file>                     re-execute a replay file in this fresh process
//!   sim one <PROP> <run_index> [seed]     run one generated seed verbosely
//!   sim selfcheck <PROP> <n>              determinism self-check: n seeds twice, 1 vs 16 workers

use simkit::alloc::Meter;

#[global_allocator]
static GLOBAL: Meter = Meter;

simkit::define_getrandom!();

mod common;
mod e1_symstream;
mod e2_lookup;
mod e3_httpcache;
mod e4_pipeline;
mod dumpgen;
mod props;
mod supervisor;
mod symgen;

fn main() {
    let args: Vec<String> = std::env::args().collect();
    let code = match args.get(1).map(|s| s.as_str()) {
        Some("run") => supervisor::cmd_run(&args[2..]),
        Some("worker") => supervisor::cmd_worker(&args[2..]),
        Some("replay") => supervisor::cmd_replay(&args[2..]),
        Some("one") => supervisor::cmd_one(&args[2..]),
        Some("selfcheck") => supervisor::cmd_selfcheck(&args[2..]),
        Some("replaycheck") => supervisor::cmd_replaycheck(&args[2..]),
        Some("hashseed-test") => supervisor::cmd_hashseed_test(),
        Some("parse") => {
            // debugging aid: whole-buffer parse of a symbol file, summary on stdout
            let bytes = std::fs::read(&args[2]).expect("read file");
            match breakpad_symbols::SymbolFile::from_bytes(&bytes) {
                Ok(t) => println!("Ok: publics={} functions={} cfi={} files={} url={:?}", t.publics.len(), t.functions.ranges_values().count(), t.cfi_stack_info.ranges_values().count(), t.files.len(), t.url),
                Err(e) => println!("Err: {e}"),
            }
            0
        }
        _ => {
            eprintln!("usage: sim run <PROP> <quick|thorough> | replay <file> | one <PROP> <idx> | selfcheck <PROP> <n>");
            2
        }
    };
    std::process::exit(code);
}
