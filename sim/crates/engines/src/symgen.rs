//! Breakpad symbol-file grammar generator (workload, not oracle).
//!
//! Everything is drawn from the run's tape.  The generator produces *lines*; the caller chooses
//! line endings, corruption and whether the last line is terminated.

use simkit::{ch, chance, range};

#[derive(Clone, Debug)]
pub struct SymOpts {
    /// Upper bound on top-level records.
    pub max_records: u32,
    /// Allow lines of 5 KiB … `max_long` bytes.
    pub long_lines: bool,
    pub max_long: usize,
    /// Allow records that make the whole parse fail (garbage lines, non-UTF-8 names, …).
    pub fatal_lines: bool,
    /// Allow numeric extremes.
    pub extremes: bool,
    /// A record gets a long name with probability 1/long_den.
    pub long_den: u32,
}

impl Default for SymOpts {
    fn default() -> Self {
        SymOpts {
            max_records: 40,
            long_lines: false,
            max_long: 79_000,
            fatal_lines: true,
            extremes: true,
            long_den: 10,
        }
    }
}

#[derive(Clone, Debug, Default)]
pub struct SymDoc {
    /// Lines without their terminator.
    pub lines: Vec<Vec<u8>>,
    /// Indices of lines that open a multi-line record (FUNC / STACK CFI INIT).
    pub record_heads: Vec<usize>,
    pub longest: usize,
}

const NAME_ALPHA: &[u8] = b"abcdefghijklmnopqrstuvwxyzABCDEFGHIJKLMNOPQRSTUVWXYZ0123456789_:<>~()*&, ";

pub fn name(site: &'static str, len: usize) -> Vec<u8> {
    let seed = ch(site, u32::MAX) as u64;
    let mut r = simkit::rng::Xoshiro::new(seed);
    let mut v = Vec::with_capacity(len);
    for i in 0..len {
        let mut c = NAME_ALPHA[r.below(NAME_ALPHA.len() as u32) as usize];
        if (i == 0 || i + 1 == len) && c == b' ' {
            c = b'_';
        }
        v.push(c);
    }
    v
}

fn short_name() -> Vec<u8> {
    let len = 1 + ch("sym.name.len", 24) as usize;
    name("sym.name", len)
}

/// A line length near one of the interesting thresholds.
pub fn long_len(max_long: usize) -> usize {
    const T: [usize; 13] = [5 * 1024, 10 * 1024, 20 * 1024, 40 * 1024, 60 * 1024, 78_000, 78_900, 79_000, 80 * 1024, 160 * 1024, 320 * 1024, 1 << 20, 2 << 20];
    let cands: Vec<usize> = T.iter().copied().filter(|&t| t <= max_long).collect();
    if cands.is_empty() {
        return max_long;
    }
    let t = cands[ch("sym.long.t", cands.len() as u32) as usize];
    let d = ch("sym.long.delta", 40) as usize;
    let variant = ch("sym.long.variant", 4);
    let l = match variant {
        0 => t,
        1 => t.saturating_sub(d),
        2 => t / 2 + d,
        _ => t.saturating_sub(t / 4).saturating_sub(d * 13),
    };
    l.clamp(16, max_long)
}

fn hex(v: u64) -> Vec<u8> {
    format!("{:x}", v).into_bytes()
}

fn num_u64(extremes: bool, typical_max: u64) -> Vec<u8> {
    if extremes && chance("sym.num.extreme", 1, 12) {
        match ch("sym.num.which", 6) {
            0 => b"0".to_vec(),
            1 => b"ffffffff".to_vec(),
            2 => b"ffffffffffffffff".to_vec(),
            3 => b"10000000000000000".to_vec(), // one digit too many
            4 => b"fffffffffffffff0".to_vec(),
            _ => b"100000000".to_vec(),
        }
    } else {
        hex(range("sym.num", 0, typical_max))
    }
}

fn num_u32(extremes: bool, typical_max: u64) -> Vec<u8> {
    if extremes && chance("sym.num32.extreme", 1, 12) {
        match ch("sym.num32.which", 5) {
            0 => b"0".to_vec(),
            1 => b"ffffffff".to_vec(),
            2 => b"100000000".to_vec(), // one digit too many
            3 => b"80000000".to_vec(),
            _ => b"fffffff8".to_vec(),
        }
    } else {
        hex(range("sym.num32", 0, typical_max))
    }
}

fn dec_u32(extremes: bool, typical_max: u64) -> Vec<u8> {
    if extremes && chance("sym.dec.extreme", 1, 12) {
        match ch("sym.dec.which", 4) {
            0 => b"0".to_vec(),
            1 => b"4294967295".to_vec(),
            2 => b"4294967296".to_vec(),
            _ => b"99999999999".to_vec(),
        }
    } else {
        format!("{}", range("sym.dec", 0, typical_max)).into_bytes()
    }
}

fn join(parts: &[&[u8]]) -> Vec<u8> {
    let mut v = Vec::new();
    for (i, p) in parts.iter().enumerate() {
        if i > 0 {
            v.push(b' ');
        }
        v.extend_from_slice(p);
    }
    v
}

const CFI_TOKENS: &[&str] = &[
    ".cfa", ".ra", "$esp", "$ebp", "$eip", "$ebx", "$rsp", "$rbp", "$rip", "sp", "fp", "lr", "pc", "x29", "x30", "r7", "r11", "+", "-", "*", "/", "%", "@", "^", "4", "8", "16", "0", "-8", "ffff", ".undef",
    // numeric boundary values
    "-1", "1", "18446744073709551615", "-9223372036854775808", "9223372036854775807", "/", "%", "*",
];

pub fn cfi_rules(extremes: bool) -> Vec<u8> {
    let mut s = String::new();
    if !extremes || !chance("sym.cfi.weird", 1, 6) {
        // plausible
        match ch("sym.cfi.shape", 4) {
            0 => s.push_str(".cfa: $esp 4 + .ra: .cfa 4 - ^"),
            1 => s.push_str(".cfa: $rsp 8 + .ra: .cfa 8 - ^ $rbp: .cfa 16 - ^"),
            2 => s.push_str(".cfa: sp 16 + .ra: x30 x29: .cfa 16 - ^ fp: .cfa 16 - ^"),
            _ => s.push_str(".cfa: $ebp 8 + .ra: .cfa 4 - ^ $ebp: .cfa 8 - ^ $esp: .cfa"),
        }
    } else {
        let n = 1 + ch("sym.cfi.n", 12);
        for i in 0..n {
            if i > 0 {
                s.push(' ');
            }
            let t = CFI_TOKENS[ch("sym.cfi.tok", CFI_TOKENS.len() as u32) as usize];
            s.push_str(t);
            if chance("sym.cfi.colon", 1, 4) {
                s.push(':');
            }
        }
    }
    s.into_bytes()
}

const WIN_TOKENS: &[&str] = &[
    "$T0", "$T1", "$T2", "$eip", "$esp", "$ebp", "$ebx", "$L", "$P", ".cbSavedRegs", ".cbParams", ".cbLocals", ".raSearchStart", ".raSearch", "=", "+", "-", "*", "/", "%", "@", "^", "4", "8", "12", "0",
    // numeric boundary values (the evaluator works on 32-bit values parsed as i32)
    "-1", "-2147483648", "2147483647", "1", "-4", "/", "%", "*",
];

thread_local! {
    /// Focus knob: every generated unwind program is an unusual one (expression-evaluator stress).
    pub static FORCE_WEIRD: std::cell::Cell<bool> = const { std::cell::Cell::new(false) };
}

pub fn win_program(extremes: bool) -> Vec<u8> {
    let force = FORCE_WEIRD.with(|f| f.get());
    if !force && (!extremes || !chance("sym.win.weird", 1, 3)) {
        match ch("sym.win.shape", 3) {
            0 => b"$T0 .raSearch = $eip $T0 ^ = $esp $T0 4 + =".to_vec(),
            1 => b"$T0 $ebp = $eip $T0 4 + ^ = $ebp $T0 ^ = $esp $T0 8 + =".to_vec(),
            _ => b"$T2 $esp .cbLocals + .cbSavedRegs + = $T0 .raSearchStart = $eip $T0 ^ = $esp $T0 4 + = $ebx $T2 4 - ^ =".to_vec(),
        }
    } else {
        if chance("sym.win.boundary_template", 1, 2) {
            // $T0 <a> <b> <op> = ... : arithmetic on boundary operands, then a normal tail
            let op = ["/", "%", "*", "+", "-"][ch("sym.win.bt.op", 5) as usize];
            let (an, bn): (&[&str], &[&str]) = if op == "/" || op == "%" {
                (&["-2147483648", "-1", "2147483647", "1"], &["-1", "0", "1", "-2147483648"])
            } else {
                (&["-2147483648", "-1", "0", "1", "2147483647"], &["-2147483648", "-1", "0", "1", "2147483647"])
            };
            let a = an[ch("sym.win.bt.a", an.len() as u32) as usize];
            let b = bn[ch("sym.win.bt.b", bn.len() as u32) as usize];
            return format!("$T0 {a} {b} {op} = $eip $esp ^ = $esp $esp 4 + =").into_bytes();
        }
        let n = 1 + ch("sym.win.n", 14);
        let mut s = String::new();
        for i in 0..n {
            if i > 0 {
                s.push(' ');
            }
            s.push_str(WIN_TOKENS[ch("sym.win.tok", WIN_TOKENS.len() as u32) as usize]);
        }
        s.into_bytes()
    }
}

/// Which record kinds are enabled for this file (swarm).
#[derive(Clone, Copy, Debug)]
pub struct Kinds(pub u32);
impl Kinds {
    pub const INFO: u32 = 1;
    pub const FILE: u32 = 2;
    pub const ORIGIN: u32 = 4;
    pub const PUBLIC: u32 = 8;
    pub const FUNC: u32 = 16;
    pub const WIN: u32 = 32;
    pub const CFI: u32 = 64;
    pub const BLANK: u32 = 128;
    pub fn draw() -> Kinds {
        // 0 => everything enabled
        let v = ch("sym.kinds", 256);
        Kinds(if v == 0 { 255 } else { v | Kinds::FUNC })
    }
    pub fn has(&self, k: u32) -> bool {
        self.0 & k != 0
    }
}

pub fn gen_doc(opts: &SymOpts) -> SymDoc {
    let mut doc = SymDoc::default();
    let kinds = Kinds::draw();
    let ext = opts.extremes;
    // MODULE line (occasionally absent or odd)
    match if opts.fatal_lines { ch("sym.module", 12) } else { 0 } {
        10 => {}
        11 => doc.lines.push(b"MODULE Linux x86_64".to_vec()),
        _ => {
            let os = *simkit::pick("sym.os", &["windows", "Linux", "mac", "Android"]);
            let cpu = *simkit::pick("sym.cpu", &["x86", "x86_64", "arm", "arm64"]);
            doc.lines.push(
                format!("MODULE {} {} 5A9832E5287241C1838ED98914E9B7FF1 {}", os, cpu, String::from_utf8_lossy(&short_name())).into_bytes(),
            );
        }
    }
    let n = range("sym.records", 0, opts.max_records as u64) as u32;
    let mut addr: u64 = 0x1000;
    let mut last_cfi: (u64, u64) = (0, 0);
    let mut last_win: (u64, u64) = (0, 0);
    let mut enabled: Vec<u32> = Vec::new();
    for k in [Kinds::INFO, Kinds::FILE, Kinds::ORIGIN, Kinds::PUBLIC, Kinds::FUNC, Kinds::WIN, Kinds::CFI, Kinds::BLANK] {
        if kinds.has(k) {
            enabled.push(k);
        }
    }
    for _ in 0..n {
        let k = enabled[ch("sym.kind", enabled.len() as u32) as usize];
        let long = opts.long_lines && chance("sym.long", 1, opts.long_den.max(1));
        let nm = if long { name("sym.longname", long_len(opts.max_long)) } else { short_name() };
        match k {
            Kinds::INFO => {
                let l = match ch("sym.info", 4) {
                    0 => join(&[b"INFO CODE_ID", &hex(range("sym.codeid", 0, u32::MAX as u64)), &nm]),
                    1 => join(&[b"INFO URL", &nm]),
                    2 => join(&[b"INFO GENERATOR", &nm]),
                    _ => join(&[b"INFO", &nm]),
                };
                doc.lines.push(l);
            }
            Kinds::FILE => doc.lines.push(join(&[b"FILE", &dec_u32(ext, 50), &nm])),
            Kinds::ORIGIN => doc.lines.push(join(&[b"INLINE_ORIGIN", &dec_u32(ext, 20), &nm])),
            Kinds::PUBLIC => {
                let a = num_u64(ext, 0x20000);
                let p = num_u32(ext, 64);
                if chance("sym.public.m", 1, 4) {
                    doc.lines.push(join(&[b"PUBLIC m", &a, &p, &nm]));
                } else {
                    doc.lines.push(join(&[b"PUBLIC", &a, &p, &nm]));
                }
            }
            Kinds::FUNC => {
                let size = range("sym.func.size", 0, 0x200);
                let a = if ext && chance("sym.func.addr.extreme", 1, 15) { num_u64(true, 0x20000) } else { hex(addr) };
                let sz = if ext && chance("sym.func.size.extreme", 1, 15) { num_u32(true, 0x200) } else { hex(size) };
                let p = num_u32(ext, 32);
                doc.record_heads.push(doc.lines.len());
                if chance("sym.func.m", 1, 5) {
                    doc.lines.push(join(&[b"FUNC m", &a, &sz, &p, &nm]));
                } else {
                    doc.lines.push(join(&[b"FUNC", &a, &sz, &p, &nm]));
                }
                let nsub = ch("sym.func.nsub", 8);
                let mut la = addr;
                for _ in 0..nsub {
                    match ch("sym.func.sub", if opts.fatal_lines { 6 } else { 5 }) {
                        // a blank line among the sub-lines: it ends the record, the next sub-line
                        // is then an error at top level (only where fatal lines are wanted)
                        5 => doc.lines.push(Vec::new()),
                        0 => {
                            // INLINE depth line file origin [addr size]+
                            let mut l = join(&[b"INLINE", &dec_u32(ext, 3), &dec_u32(ext, 500), &dec_u32(ext, 50), &dec_u32(ext, 20)]);
                            let nr = 1 + ch("sym.inline.ranges", 3);
                            for _ in 0..nr {
                                l.push(b' ');
                                l.extend_from_slice(&hex(la));
                                l.push(b' ');
                                l.extend_from_slice(&num_u32(ext, 0x20));
                            }
                            doc.lines.push(l);
                        }
                        1 => doc.lines.push(join(&[b"INLINE_ORIGIN", &dec_u32(ext, 20), &short_name()])),
                        _ => {
                            let ls = range("sym.line.size", 0, 0x20);
                            doc.lines.push(join(&[&hex(la), &num_u32(ext, 0x20), &dec_u32(ext, 5000), &dec_u32(ext, 50)]));
                            la = la.wrapping_add(ls);
                        }
                    }
                }
                // next function: usually after a gap, sometimes adjacent, sharing exactly the last
                // byte, overlapping, or a duplicate range
                addr = match ch("sym.func.next", 8) {
                    0 => addr.wrapping_add(size.max(1)),
                    1 => addr.wrapping_add(size.max(1)).wrapping_sub(1),
                    2 => addr.wrapping_add(size / 2),
                    3 => addr,
                    _ => addr.wrapping_add(size.max(1)) + range("sym.func.gap", 0, 0x40),
                };
            }
            Kinds::WIN => {
                let ty = *simkit::pick("sym.win.ty", &[b'4', b'0', b'4', b'0', b'1', b'3', b'f']);
                let has_ps = match ch("sym.win.hasps", 6) {
                    0 => b'9',
                    1 => {
                        if ty == b'4' {
                            b'0'
                        } else {
                            b'1'
                        }
                    }
                    _ => {
                        if ty == b'4' {
                            b'1'
                        } else {
                            b'0'
                        }
                    }
                };
                // placement relative to the previous STACK WIN record: share its last byte,
                // adjacent, same start with another size, exact duplicate, strictly inside
                let (a, wsize) = match ch("sym.win.place", 8) {
                    0 if last_win.1 > 0 => (hex(last_win.0 + last_win.1 - 1), num_u32(ext, 0x200)),
                    1 if last_win.1 > 0 => (hex(last_win.0 + last_win.1), num_u32(ext, 0x200)),
                    2 if last_win.1 > 0 => (hex(last_win.0), hex(1 + ch("sym.win.other_size", 0x1ff) as u64)),
                    3 if last_win.1 > 0 => (hex(last_win.0), hex(last_win.1)),
                    4 if last_win.1 > 1 => (hex(last_win.0 + 1), hex(last_win.1 - 1)),
                    _ => {
                        let a0 = range("sym.win.addr", 0x1000, 0x20000);
                        let sz = range("sym.win.size", 0, 0x200);
                        last_win = (a0, sz);
                        (if ext && chance("sym.win.addr.extreme", 1, 10) { num_u64(true, 0x20000) } else { hex(a0) }, if ext && chance("sym.win.size.extreme", 1, 10) { num_u32(true, 0x200) } else { hex(sz) })
                    }
                };
                let consistent = (ty == b'4') == (has_ps == b'1');
                let rest = if !consistent && chance("sym.win.text_tail", 1, 3) {
                    // a record the parser discards as inconsistent, whose last field is a long
                    // piece of text with multi-byte characters at drawn offsets (what a warning
                    // or a truncating log message would have to cope with)
                    let mut t: Vec<u8> = std::iter::repeat(b'w').take(range("sym.win.tail.ascii", 40, 140) as usize).collect();
                    for _ in 0..(1 + ch("sym.win.tail.groups", 4)) {
                        t.extend_from_slice(["\u{e9}", "\u{63cf}", "\u{1f980}", "\u{e9}\u{63cf}\u{1f980}"][ch("sym.win.tail.char", 4) as usize].as_bytes());
                        t.extend(std::iter::repeat(b'x').take(ch("sym.win.tail.gap", 4) as usize));
                    }
                    t
                } else if chance("sym.win.empty_last", 1, 12) {
                    // the last column left empty: the line ends right after the separator
                    Vec::new()
                } else if ty == b'4' {
                    win_program(ext)
                } else {
                    vec![*simkit::pick("sym.win.bp", &[b'0', b'1'])]
                };
                let mut l = b"STACK WIN ".to_vec();
                l.push(ty);
                for f in [a, wsize, num_u32(ext, 16), num_u32(ext, 16), num_u32(ext, 64), num_u32(ext, 32), num_u32(ext, 256), num_u32(ext, 64)] {
                    l.push(b' ');
                    l.extend_from_slice(&f);
                }
                l.push(b' ');
                l.push(has_ps);
                l.push(b' ');
                l.extend_from_slice(&rest);
                if long {
                    l.push(b' ');
                    l.extend_from_slice(&nm);
                }
                doc.lines.push(l);
            }
            Kinds::CFI => {
                let a0 = match ch("sym.cfi.place", 5) {
                    // relative to the previous STACK CFI INIT: share its last byte, adjacent, same start
                    0 if last_cfi.1 > 0 => last_cfi.0 + last_cfi.1 - 1,
                    1 if last_cfi.1 > 0 => last_cfi.0 + last_cfi.1,
                    2 if last_cfi.1 > 0 => last_cfi.0,
                    _ => range("sym.cfi.addr", 0x1000, 0x20000),
                };
                doc.record_heads.push(doc.lines.len());
                let csize = range("sym.cfi.size", 0, 0x200);
                last_cfi = (a0, csize);
                let mut l = join(&[b"STACK CFI INIT", &if ext && chance("sym.cfi.addr.extreme", 1, 15) { num_u64(true, 0) } else { hex(a0) }, &if ext && chance("sym.cfi.size.extreme", 1, 15) { num_u32(true, 0x200) } else { hex(csize) }, &cfi_rules(ext)]);
                if long {
                    l.extend_from_slice(b" $junk: ");
                    l.extend_from_slice(&nm);
                }
                doc.lines.push(l);
                let nd = ch("sym.cfi.ndelta", 5);
                for i in 0..nd {
                    if opts.fatal_lines && chance("sym.cfi.blank_inside", 1, 8) {
                        doc.lines.push(Vec::new());
                    }
                    doc.lines.push(join(&[b"STACK CFI", &hex(a0 + 1 + i as u64 * 3), &cfi_rules(ext)]));
                }
            }
            _ => doc.lines.push(Vec::new()),
        }
        if opts.fatal_lines && chance("sym.fatal", 1, 60) {
            match ch("sym.fatal.kind", 5) {
                0 => doc.lines.push(b"this is not a record".to_vec()),
                1 => doc.lines.push(vec![b'F', b'I', b'L', b'E', b' ', b'1', b' ', 0xff, 0xfe, 0x80]),
                2 => doc.lines.push(b"FUNC zz 10 0 bad_hex".to_vec()),
                3 => doc.lines.push(b"MODULE Linux x86 000000000000000000000000000000000 late.so".to_vec()),
                _ => doc.lines.push(b"PUBLIC 1000".to_vec()),
            }
        }
    }
    // Empty trailing field: one or two lines of a third of the files end right after their last
    // separator (`PUBLIC 1000 0 `, `FUNC 1000 10 0 `, `STACK CFI 1004 `, `FILE 3 `).  Some of these
    // parse, some are errors - in every case identically under every chunking.
    if opts.fatal_lines && !doc.lines.is_empty() {
        let n_empty = match ch("sym.empty_tail", 6) {
            0 => 1,
            1 => 2,
            _ => 0,
        };
        for _ in 0..n_empty {
            let i = range("sym.empty_tail.line", 0, doc.lines.len() as u64 - 1) as usize;
            if doc.lines[i].len() < 4096 {
                if let Some(p) = doc.lines[i].iter().rposition(|&b| b == b' ') {
                    doc.lines[i].truncate(p + 1);
                }
            }
        }
    }
    doc.longest = doc.lines.iter().map(|l| l.len()).max().unwrap_or(0);
    doc
}

#[derive(Clone, Copy, Debug, PartialEq, Eq)]
pub enum Eol {
    Lf,
    CrLf,
    CrCrLf,
    Mixed,
}

pub fn draw_eol() -> Eol {
    [Eol::Lf, Eol::CrLf, Eol::CrCrLf, Eol::Mixed][ch("sym.eol", 4) as usize]
}

/// Serialise lines.  Returns (bytes, offsets of each line start, offset list of positions between `\r` and `\n`).
pub fn render(doc: &SymDoc, eol: Eol, terminate_last: bool) -> (Vec<u8>, Vec<usize>) {
    let mut out = Vec::new();
    let mut starts = Vec::new();
    let n = doc.lines.len();
    for (i, l) in doc.lines.iter().enumerate() {
        starts.push(out.len());
        out.extend_from_slice(l);
        if i + 1 == n && !terminate_last {
            break;
        }
        let e = match eol {
            Eol::Mixed => [Eol::Lf, Eol::CrLf, Eol::CrCrLf][ch("sym.eol.mixed", 3) as usize],
            e => e,
        };
        match e {
            Eol::Lf => out.push(b'\n'),
            Eol::CrLf => out.extend_from_slice(b"\r\n"),
            _ => out.extend_from_slice(b"\r\r\n"),
        }
    }
    (out, starts)
}

/// Byte-level corruption of a rendered file (1–4 edits).
pub fn corrupt(bytes: &mut Vec<u8>) {
    if bytes.is_empty() {
        return;
    }
    let edits = 1 + ch("sym.corrupt.n", 4);
    for _ in 0..edits {
        if bytes.is_empty() {
            return;
        }
        let pos = range("sym.corrupt.pos", 0, bytes.len() as u64 - 1) as usize;
        match ch("sym.corrupt.kind", 6) {
            0 => bytes[pos] ^= 1 << ch("sym.corrupt.bit", 8),
            1 => bytes[pos] = b'\n',
            2 => bytes[pos] = 0,
            3 => {
                bytes.remove(pos);
            }
            4 => bytes.insert(pos, *simkit::pick("sym.corrupt.ins", &[b' ', b'\r', b'\n', 0xff, b'0'])),
            _ => {
                let len = (range("sym.corrupt.cut", 1, 64) as usize).min(bytes.len() - pos);
                bytes.drain(pos..pos + len);
            }
        }
    }
}

/// Longest line (distance between consecutive `\n`, counting a trailing unterminated fragment).
pub fn longest_line(bytes: &[u8]) -> usize {
    let mut longest = 0;
    let mut cur = 0;
    for &b in bytes {
        cur += 1;
        if b == b'\n' {
            longest = longest.max(cur);
            cur = 0;
        }
    }
    longest.max(cur)
}
