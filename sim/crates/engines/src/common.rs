//! Shared helpers: swarm knobs, executor configuration, scratch directories.

use simkit::{ch, ExecConfig, Policy};
use std::path::PathBuf;

/// Draw an executor configuration (swarm style).  All-zero cells give FIFO, no spurious polls,
/// polls preferred over events: the plain schedule.
pub fn draw_exec_config(step_budget: u64) -> ExecConfig {
    let policy = Policy::from_index(ch("exec.policy", 4));
    let spurious_den = [0u32, 16, 4][ch("exec.spurious_den", 3) as usize];
    let time_pass_den = [0u32, 8, 2][ch("exec.timepass_den", 3) as usize];
    ExecConfig {
        policy,
        spurious_den,
        time_pass_den,
        step_budget,
        time_pass_never: &[],
        strict_wakers: simkit::chance("exec.strict_wakers", 1, 3),
        pct_depth: 1 + ch("exec.pct_depth", 3),
        pct_horizon: 8 << ch("exec.pct_horizon", 4),
    }
}

pub fn exec_config_json(c: &ExecConfig) -> serde_json::Value {
    serde_json::json!({
        "policy": c.policy.name(),
        "spurious_poll_probability": if c.spurious_den == 0 { "0".to_string() } else { format!("1/{}", c.spurious_den) },
        "let_time_pass_probability": if c.time_pass_den == 0 { "0".to_string() } else { format!("1/{}", c.time_pass_den) },
        "strict_wakers": c.strict_wakers,
    })
}

/// A simulated delay in ns: 0 is "immediately ready".
pub fn draw_delay(site: &'static str) -> u64 {
    const D: [u64; 8] = [0, 1_000, 50_000, 1_000_000, 20_000_000, 300_000_000, 2_000_000_000, 30_000_000_000];
    let base = D[ch(site, D.len() as u32) as usize];
    if base == 0 {
        0
    } else {
        base + ch(site, 1000) as u64
    }
}

/// A non-zero delay (forces at least one Pending).
pub fn draw_delay_nz(site: &'static str) -> u64 {
    const D: [u64; 6] = [1_000, 50_000, 1_000_000, 20_000_000, 300_000_000, 2_000_000_000];
    D[ch(site, D.len() as u32) as usize] + ch(site, 1000) as u64
}

/// Private scratch directory for one run, on tmpfs when available.  Removed on drop.
pub struct Scratch {
    pub root: PathBuf,
}

impl Scratch {
    pub fn new(tag: &str) -> Scratch {
        use std::sync::atomic::{AtomicU64, Ordering};
        static N: AtomicU64 = AtomicU64::new(0);
        let base = if std::path::Path::new("/dev/shm").is_dir() {
            PathBuf::from("/dev/shm")
        } else {
            PathBuf::from(std::env::var("VERIF_DIR").unwrap_or_else(|_| "/verif".into())).join("sim/target/scratch")
        };
        let n = N.fetch_add(1, Ordering::Relaxed);
        let root = base.join(format!("verif-sim-{}-{}-{}", std::process::id(), tag, n));
        let _ = std::fs::remove_dir_all(&root);
        std::fs::create_dir_all(&root).expect("scratch dir");
        Scratch { root }
    }
}

impl Drop for Scratch {
    fn drop(&mut self) {
        let _ = std::fs::remove_dir_all(&self.root);
    }
}

/// Sorted recursive listing of regular files (relative path → content) and directories.
pub fn list_tree(root: &std::path::Path) -> (Vec<(String, Vec<u8>)>, Vec<String>) {
    let mut files = Vec::new();
    let mut dirs = Vec::new();
    fn walk(base: &std::path::Path, dir: &std::path::Path, files: &mut Vec<(String, Vec<u8>)>, dirs: &mut Vec<String>) {
        let Ok(rd) = std::fs::read_dir(dir) else { return };
        let mut entries: Vec<_> = rd.filter_map(|e| e.ok()).map(|e| e.path()).collect();
        entries.sort();
        for p in entries {
            let rel = p.strip_prefix(base).unwrap().to_string_lossy().to_string();
            let Ok(md) = std::fs::symlink_metadata(&p) else { continue };
            if md.is_dir() {
                dirs.push(rel);
                walk(base, &p, files, dirs);
            } else {
                files.push((rel, std::fs::read(&p).unwrap_or_default()));
            }
        }
    }
    walk(root, root, &mut files, &mut dirs);
    (files, dirs)
}

pub fn fnv(bytes: &[u8]) -> u64 {
    simkit::rng::hash_bytes(bytes)
}

/// Leaf name of a Windows- or POSIX-style path.
pub fn leaf(path: &str) -> &str {
    path.rsplit(['/', '\\']).next().unwrap_or(path)
}
