//! Supervisor / worker / replay.

use crate::props::{self, Prop};
use serde_json::{json, Value};
use simkit::ctx::Tape;
use simkit::rng::{hash_bytes, mix};
use simkit::runner::{run_tape, RunReport, Status};
use std::collections::{BTreeMap, HashSet};
use std::fs;
use std::io::{Read, Write};
use std::os::unix::fs::FileExt;
use std::path::{Path, PathBuf};
use std::process::{Child, Command, Stdio};
use std::time::{Duration, Instant};

pub const DEFAULT_SEED: u64 = 20_261_002;

fn verif_dir() -> PathBuf {
    PathBuf::from(std::env::var("VERIF_DIR").unwrap_or_else(|_| "/verif".into()))
}

fn env_u64(name: &str) -> Option<u64> {
    std::env::var(name).ok().and_then(|v| v.trim().parse().ok())
}

pub fn run_seed(verif_seed: u64, prop: &str, idx: u64) -> u64 {
    mix(&[verif_seed, hash_bytes(prop.as_bytes()), idx])
}

// ---------------------------------------------------------------------------------------------
// known findings

#[derive(Clone, Debug)]
pub struct Finding {
    pub property: String,
    pub status: String, // "known" | "fixed"
    pub signature: String,
    pub description: String,
}

pub fn load_findings() -> Vec<Finding> {
    let p = verif_dir().join("known_findings.json");
    let mut out = Vec::new();
    if let Ok(s) = fs::read_to_string(&p) {
        if let Ok(Value::Array(a)) = serde_json::from_str::<Value>(&s) {
            for e in a {
                out.push(Finding {
                    property: e["property"].as_str().unwrap_or("").to_string(),
                    status: e["status"].as_str().unwrap_or("").to_string(),
                    signature: e["signature"].as_str().unwrap_or("").to_string(),
                    description: e["description"].as_str().unwrap_or("").to_string(),
                });
            }
        }
    }
    out
}

/// A violation is a *listed known finding* iff a `known` entry of the same property has a
/// signature that equals the violation's signature.  `fixed` entries suppress nothing.
fn match_known<'a>(findings: &'a [Finding], prop: &str, sig: &str) -> Option<&'a Finding> {
    findings
        .iter()
        .find(|f| f.property == prop && f.status == "known" && f.signature == sig)
}

// ---------------------------------------------------------------------------------------------
// worker

struct WorkerArgs {
    prop: String,
    verif_seed: u64,
    start: u64,
    end: u64,
    stride: u64,
    dir: PathBuf,
    widx: u64,
    max_viol: u64,
    digests: bool,
}

fn parse_worker_args(a: &[String]) -> Option<WorkerArgs> {
    Some(WorkerArgs {
        prop: a.first()?.clone(),
        verif_seed: a.get(1)?.parse().ok()?,
        start: a.get(2)?.parse().ok()?,
        end: a.get(3)?.parse().ok()?,
        stride: a.get(4)?.parse().ok()?,
        dir: PathBuf::from(a.get(5)?),
        widx: a.get(6)?.parse().ok()?,
        max_viol: a.get(7)?.parse().ok()?,
        digests: a.get(8).map(|s| s == "1").unwrap_or(false),
    })
}

fn report_to_json(prop: &str, verif_seed: u64, idx: u64, seed: u64, r: &RunReport) -> Value {
    let (sig, oracle, detail) = match &r.status {
        Status::Ok => (String::new(), String::new(), String::new()),
        Status::Violation(v) => (v.signature(), v.oracle.clone(), v.detail.clone()),
    };
    json!({
        "property": prop,
        "verif_seed": verif_seed,
        "run_index": idx,
        "run_seed": seed,
        "tape": r.tape,
        "signature": sig,
        "oracle": oracle,
        "detail": detail,
        "trace_digest": format!("{:016x}", r.digest),
        "info": r.info,
    })
}

pub fn cmd_worker(a: &[String]) -> i32 {
    let Some(w) = parse_worker_args(a) else {
        eprintln!("worker: bad args");
        return 2;
    };
    let Some(prop) = props::find(&w.prop) else {
        eprintln!("worker: unknown property");
        return 2;
    };
    simkit::runner::install_panic_hook();
    let findings = load_findings();
    let progress = fs::OpenOptions::new()
        .create(true)
        .truncate(true)
        .write(true)
        .open(w.dir.join(format!("progress-{}", w.widx)))
        .expect("progress file");
    let mut keys: HashSet<u64> = HashSet::new();
    let mut probes: BTreeMap<String, u64> = BTreeMap::new();
    let mut runs = 0u64;
    let mut nontrivial = 0u64;
    let mut sim_ns = 0u128;
    let mut events = 0u64;
    let mut violations: Vec<Value> = Vec::new();
    let mut viol_count = 0u64;
    let mut known_hits: BTreeMap<String, u64> = BTreeMap::new();
    let mut seen_sigs: HashSet<String> = HashSet::new();
    let mut sig_counts: BTreeMap<String, u64> = BTreeMap::new();
    let mut samples: Vec<Value> = Vec::new();
    let mut digests: Vec<String> = Vec::new();
    let mut new_keys_last_decile = 0u64;
    let total_here = if w.end > w.start { (w.end - w.start).div_ceil(w.stride) } else { 0 };
    let t0 = Instant::now();

    let mut idx = w.start;
    while idx < w.end {
        let seed = run_seed(w.verif_seed, prop.id, idx);
        let mut rec = [0u8; 16];
        rec[..8].copy_from_slice(&idx.to_le_bytes());
        rec[8..].copy_from_slice(&(t0.elapsed().as_millis() as u64).to_le_bytes());
        let _ = progress.write_all_at(&rec, 0);

        let r = run_tape(Tape::generate(seed), false, prop.engine);
        runs += 1;
        sim_ns += r.sim_ns as u128;
        events += r.events;
        for (k, v) in &r.probes {
            *probes.entry(k.to_string()).or_insert(0) += v;
        }
        if r.nontrivial {
            nontrivial += 1;
            if keys.insert(r.key) && runs * 10 >= total_here * 9 {
                new_keys_last_decile += 1;
            }
            if samples.len() < 2 {
                // re-run verbosely for a readable sample (same tape => same run)
                let v = run_tape(Tape::replay(r.tape.clone()), true, prop.engine);
                let mut log = v.log.clone();
                log.truncate(40);
                samples.push(json!({"run_index": idx, "run_seed": seed, "tape_len": r.tape.len(), "case": r.info, "trace_head": log}));
            }
        }
        if w.digests {
            let st = match &r.status {
                Status::Ok => "ok".to_string(),
                Status::Violation(v) => v.signature(),
            };
            digests.push(format!("{} {:016x} {:016x} {}", idx, r.digest, r.key, st));
        }
        if let Status::Violation(v) = &r.status {
            let sig = v.signature();
            if let Some(f) = match_known(&findings, prop.id, &sig) {
                *known_hits.entry(f.signature.clone()).or_insert(0) += 1;
            } else {
                viol_count += 1;
                *sig_counts.entry(sig.clone()).or_insert(0) += 1;
                if seen_sigs.insert(sig.clone()) && (violations.len() as u64) < w.max_viol {
                    // minimise while the same signature persists
                    let engine = prop.engine;
                    let sig2 = sig.clone();
                    let (min_tape, st) = simkit::shrink::minimise(
                        r.tape.clone(),
                        env_u64("VERIF_SHRINK_EXECS").unwrap_or(2000) as u32,
                        Duration::from_secs(env_u64("VERIF_SHRINK_S").unwrap_or(90)),
                        |cand| {
                            let rr = run_tape(Tape::replay(cand.to_vec()), false, engine);
                            match rr.status {
                                Status::Violation(v2) if v2.signature() == sig2 => Some(rr.tape),
                                _ => None,
                            }
                        },
                    );
                    let rmin = run_tape(Tape::replay(min_tape.clone()), true, engine);
                    let mut j = report_to_json(prop.id, w.verif_seed, idx, seed, &rmin);
                    j["original_tape_len"] = json!(r.tape.len());
                    j["shrink"] = json!({"executions": st.executions, "accepted": st.accepted, "from_len": st.from_len, "to_len": st.to_len});
                    j["trace"] = json!(rmin.log);
                    j["message"] = json!(format!("{}", v.detail));
                    violations.push(j);
                }
            }
        }
        idx += w.stride;
    }
    let mut rec = [0xffu8; 16];
    rec[8..].copy_from_slice(&(t0.elapsed().as_millis() as u64).to_le_bytes());
    let _ = progress.write_all_at(&rec, 0);

    // keys
    let mut kb = Vec::with_capacity(keys.len() * 8);
    for k in &keys {
        kb.extend_from_slice(&k.to_le_bytes());
    }
    fs::write(w.dir.join(format!("keys-{}", w.widx)), kb).expect("keys");
    if w.digests {
        fs::write(w.dir.join(format!("digests-{}", w.widx)), digests.join("\n")).expect("digests");
    }
    let out = json!({
        "runs": runs,
        "nontrivial": nontrivial,
        "sim_ns": sim_ns.to_string(),
        "events": events,
        "probes": probes,
        "violations": violations,
        "violation_count": viol_count,
        "known_hits": known_hits,
        "sig_counts": sig_counts,
        "samples": samples,
        "new_keys_last_decile": new_keys_last_decile,
        "wall_s": t0.elapsed().as_secs_f64(),
    });
    fs::write(
        w.dir.join(format!("result-{}.json", w.widx)),
        serde_json::to_vec(&out).unwrap(),
    )
    .expect("result");
    0
}

// ---------------------------------------------------------------------------------------------
// supervisor

struct Slot {
    widx: u64,
    child: Child,
    start: u64,
    last_idx: u64,
    last_change: Instant,
}

fn spawn_worker(
    prop: &str,
    verif_seed: u64,
    start: u64,
    end: u64,
    stride: u64,
    dir: &Path,
    widx: u64,
    max_viol: u64,
    digests: bool,
) -> Child {
    Command::new(std::env::current_exe().expect("exe"))
        .arg("worker")
        .arg(prop)
        .arg(verif_seed.to_string())
        .arg(start.to_string())
        .arg(end.to_string())
        .arg(stride.to_string())
        .arg(dir)
        .arg(widx.to_string())
        .arg(max_viol.to_string())
        .arg(if digests { "1" } else { "0" })
        .stdin(Stdio::null())
        .stdout(Stdio::inherit())
        .stderr(Stdio::inherit())
        .spawn()
        .expect("spawn worker")
}

fn read_progress(dir: &Path, widx: u64) -> Option<u64> {
    let mut f = fs::File::open(dir.join(format!("progress-{}", widx))).ok()?;
    let mut b = [0u8; 16];
    f.read_exact(&mut b).ok()?;
    Some(u64::from_le_bytes(b[..8].try_into().unwrap()))
}

/// Run one seed in a child process with a watchdog; returns (exit_ok, timed_out).
fn confirm_in_child(prop: &str, verif_seed: u64, idx: u64, watchdog: Duration) -> (bool, bool) {
    let mut child = Command::new(std::env::current_exe().expect("exe"))
        .arg("one")
        .arg(prop)
        .arg(idx.to_string())
        .arg(verif_seed.to_string())
        .arg("--quiet")
        .stdin(Stdio::null())
        .stdout(Stdio::null())
        .stderr(Stdio::null())
        .spawn()
        .expect("spawn confirm");
    let t0 = Instant::now();
    loop {
        match child.try_wait() {
            Ok(Some(st)) => return (st.code() == Some(0) || st.code() == Some(1), false),
            Ok(None) => {
                if t0.elapsed() > watchdog {
                    let _ = child.kill();
                    let _ = child.wait();
                    return (false, true);
                }
                std::thread::sleep(Duration::from_millis(20));
            }
            Err(_) => return (false, false),
        }
    }
}

pub struct BatchResult {
    pub evaluations: u64,
    pub nontrivial: u64,
    pub distinct: u64,
    pub probes: BTreeMap<String, u64>,
    pub sim_s: f64,
    pub events: u64,
    pub violations: Vec<Value>,
    pub violation_count: u64,
    pub known_hits: BTreeMap<String, u64>,
    pub samples: Vec<Value>,
    pub new_keys_last_decile: u64,
    pub harness_errors: Vec<String>,
    pub digests: Vec<String>,
    pub sig_counts: BTreeMap<String, u64>,
}

#[allow(clippy::too_many_arguments)]
pub fn run_batch(
    prop: &Prop,
    verif_seed: u64,
    runs: u64,
    workers: u64,
    dir: &Path,
    digests: bool,
    keep_going: bool,
) -> BatchResult {
    let _ = fs::remove_dir_all(dir);
    fs::create_dir_all(dir).expect("run dir");
    let max_viol: u64 = 3;
    let watchdog = Duration::from_secs(prop.watchdog_s);
    let mut slots: Vec<Slot> = Vec::new();
    let workers = workers.min(runs.max(1));
    for w in 0..workers {
        let child = spawn_worker(prop.id, verif_seed, w, runs, workers, dir, w, max_viol, digests);
        slots.push(Slot {
            widx: w,
            child,
            start: w,
            last_idx: u64::MAX - 1,
            last_change: Instant::now(),
        });
    }
    let mut res = BatchResult {
        evaluations: 0,
        nontrivial: 0,
        distinct: 0,
        probes: BTreeMap::new(),
        sim_s: 0.0,
        events: 0,
        violations: Vec::new(),
        violation_count: 0,
        known_hits: BTreeMap::new(),
        samples: Vec::new(),
        new_keys_last_decile: 0,
        harness_errors: Vec::new(),
        digests: Vec::new(),
        sig_counts: BTreeMap::new(),
    };
    let mut keys: HashSet<u64> = HashSet::new();
    let mut done: Vec<bool> = vec![false; slots.len()];
    // results of worker generations that ended early (crash/hang) are merged too
    let mut gen: Vec<u64> = vec![0; slots.len()];
    let mut stop_requested = false;

    let merge = |dir: &Path, widx: u64, res: &mut BatchResult, keys: &mut HashSet<u64>| -> bool {
        let p = dir.join(format!("result-{}.json", widx));
        let Ok(s) = fs::read(&p) else { return false };
        let Ok(v) = serde_json::from_slice::<Value>(&s) else { return false };
        res.evaluations += v["runs"].as_u64().unwrap_or(0);
        res.nontrivial += v["nontrivial"].as_u64().unwrap_or(0);
        res.events += v["events"].as_u64().unwrap_or(0);
        res.sim_s += v["sim_ns"].as_str().and_then(|s| s.parse::<u128>().ok()).unwrap_or(0) as f64 / 1e9;
        res.violation_count += v["violation_count"].as_u64().unwrap_or(0);
        res.new_keys_last_decile += v["new_keys_last_decile"].as_u64().unwrap_or(0);
        if let Some(m) = v["probes"].as_object() {
            for (k, n) in m {
                *res.probes.entry(k.clone()).or_insert(0) += n.as_u64().unwrap_or(0);
            }
        }
        if let Some(m) = v["sig_counts"].as_object() {
            for (k, n) in m {
                *res.sig_counts.entry(k.clone()).or_insert(0) += n.as_u64().unwrap_or(0);
            }
        }
        if let Some(m) = v["known_hits"].as_object() {
            for (k, n) in m {
                *res.known_hits.entry(k.clone()).or_insert(0) += n.as_u64().unwrap_or(0);
            }
        }
        if let Some(a) = v["violations"].as_array() {
            for viol in a {
                // one replay per distinct signature
                let sig = viol["signature"].as_str().unwrap_or("");
                if !res.violations.iter().any(|x| x["signature"].as_str().unwrap_or("") == sig) {
                    res.violations.push(viol.clone());
                }
            }
        }
        if let Some(a) = v["samples"].as_array() {
            for s in a {
                if res.samples.len() < 4 {
                    res.samples.push(s.clone());
                }
            }
        }
        if let Ok(kb) = fs::read(dir.join(format!("keys-{}", widx))) {
            for c in kb.chunks_exact(8) {
                keys.insert(u64::from_le_bytes(c.try_into().unwrap()));
            }
        }
        if let Ok(d) = fs::read_to_string(dir.join(format!("digests-{}", widx))) {
            res.digests.extend(d.lines().map(|l| l.to_string()));
        }
        let _ = fs::remove_file(&p);
        let _ = fs::remove_file(dir.join(format!("keys-{}", widx)));
        let _ = fs::remove_file(dir.join(format!("digests-{}", widx)));
        true
    };

    loop {
        let mut all_done = true;
        for i in 0..slots.len() {
            if done[i] {
                continue;
            }
            all_done = false;
            let widx = slots[i].widx;
            match slots[i].child.try_wait() {
                Ok(Some(st)) => {
                    if st.success() && merge(dir, widx, &mut res, &mut keys) {
                        done[i] = true;
                        continue;
                    }
                    // abnormal exit: attribute to the journalled run
                    let idx = read_progress(dir, widx).unwrap_or(slots[i].start);
                    let (ok, hung) = confirm_in_child(prop.id, verif_seed, idx, watchdog);
                    if ok {
                        res.harness_errors.push(format!(
                            "worker {} died ({:?}) at run {} but the run alone completes: unconfirmed crash",
                            widx, st, idx
                        ));
                    } else {
                        let oracle = if hung { "hang" } else { "abort" };
                        res.violation_count += 1;
                        res.violations.push(json!({
                            "property": prop.id, "verif_seed": verif_seed, "run_index": idx,
                            "run_seed": run_seed(verif_seed, prop.id, idx),
                            "tape": [], "mode": "seed",
                            "signature": format!("{}: process {} (status {:?})", oracle, if hung {"exceeded the watchdog"} else {"died"}, st.code()),
                            "oracle": oracle, "detail": format!("worker exit status {:?}", st),
                        }));
                    }
                    gen[i] += 1;
                    let next = idx + workers;
                    if next < runs && !stop_requested {
                        slots[i].start = next;
                        slots[i].child = spawn_worker(prop.id, verif_seed, next, runs, workers, dir, widx, max_viol, digests);
                        slots[i].last_idx = u64::MAX - 1;
                        slots[i].last_change = Instant::now();
                    } else {
                        done[i] = true;
                    }
                }
                Ok(None) => {
                    // watchdog on the journalled run
                    if let Some(idx) = read_progress(dir, widx) {
                        if idx != slots[i].last_idx {
                            slots[i].last_idx = idx;
                            slots[i].last_change = Instant::now();
                        } else if idx != u64::MAX && slots[i].last_change.elapsed() > watchdog {
                            let _ = slots[i].child.kill();
                            let _ = slots[i].child.wait();
                            res.violation_count += 1;
                            res.violations.push(json!({
                                "property": prop.id, "verif_seed": verif_seed, "run_index": idx,
                                "run_seed": run_seed(verif_seed, prop.id, idx),
                                "tape": [], "mode": "seed",
                                "signature": format!("hang: run exceeded the {} s wall-clock watchdog", prop.watchdog_s),
                                "oracle": "hang", "detail": "no progress",
                            }));
                            let next = idx + workers;
                            if next < runs && !stop_requested {
                                slots[i].start = next;
                                slots[i].child = spawn_worker(prop.id, verif_seed, next, runs, workers, dir, widx, max_viol, digests);
                                slots[i].last_idx = u64::MAX - 1;
                                slots[i].last_change = Instant::now();
                            } else {
                                done[i] = true;
                            }
                        }
                    }
                }
                Err(e) => {
                    res.harness_errors.push(format!("wait failed: {e}"));
                    done[i] = true;
                }
            }
        }
        if all_done {
            break;
        }
        if !keep_going && !stop_requested && !res.violations.is_empty() {
            // a violation with a replay is in hand: let the others stop
            stop_requested = true;
            for i in 0..slots.len() {
                if !done[i] {
                    let _ = slots[i].child.kill();
                    let _ = slots[i].child.wait();
                    done[i] = true;
                }
            }
        }
        std::thread::sleep(Duration::from_millis(25));
    }
    res.distinct = keys.len() as u64;
    let _ = fs::remove_dir_all(dir);
    res
}

fn repo_head() -> String {
    Command::new("git")
        .args(["-C", "/repo", "rev-parse", "HEAD"])
        .output()
        .ok()
        .map(|o| String::from_utf8_lossy(&o.stdout).trim().to_string())
        .unwrap_or_default()
}

/// Workers that were killed (watchdog, memory cap) cannot remove their scratch trees: remove the
/// trees of processes that no longer exist before starting a batch.
fn sweep_stale_scratch() {
    let Ok(rd) = std::fs::read_dir("/dev/shm") else { return };
    for e in rd.flatten() {
        let name = e.file_name().to_string_lossy().to_string();
        let Some(rest) = name.strip_prefix("verif-sim-") else { continue };
        let Some(pid) = rest.split('-').next().and_then(|p| p.parse::<u32>().ok()) else { continue };
        if !std::path::Path::new(&format!("/proc/{pid}")).exists() {
            let _ = std::fs::remove_dir_all(e.path());
        }
    }
}

pub fn cmd_run(a: &[String]) -> i32 {
    let (Some(pid), Some(tier)) = (a.first(), a.get(1)) else {
        eprintln!("usage: sim run <PROP> <quick|thorough>");
        return 2;
    };
    let Some(prop) = props::find(pid) else {
        eprintln!("unknown property {pid}");
        return 2;
    };
    if tier != "quick" && tier != "thorough" {
        eprintln!("tier must be quick or thorough");
        return 2;
    }
    sweep_stale_scratch();
    let verif_seed = env_u64("VERIF_SEED").unwrap_or(DEFAULT_SEED);
    let runs = env_u64("VERIF_RUNS").unwrap_or(if tier == "quick" {
        prop.quick_runs
    } else {
        prop.thorough_runs
    });
    let workers = env_u64("VERIF_WORKERS").unwrap_or(16).max(1);
    let keep_going = std::env::var("VERIF_KEEP_GOING").is_ok();
    let vdir = verif_dir();
    let dir = vdir
        .join("sim/target/runs")
        .join(format!("{}-{}-{}", prop.id, tier, std::process::id()));
    println!(
        "sim: property={} engine={} tier={} VERIF_SEED={} runs={} workers={}",
        prop.id, prop.engine_name, tier, verif_seed, runs, workers
    );
    let t0 = Instant::now();
    let res = run_batch(&prop, verif_seed, runs, workers, &dir, false, keep_going);
    let mut exit = 0;

    // determinism spot check (thorough, or when asked): re-run a slice with one worker and compare
    let mut determinism = json!(null);
    let recheck = env_u64("VERIF_RECHECK").unwrap_or(if tier == "thorough" { 4096 } else { 256 });
    if recheck > 0 && res.violations.is_empty() {
        let n = recheck.min(runs);
        let d1 = run_batch(&prop, verif_seed, n, 1, &dir.with_extension("d1"), true, true);
        let d2 = run_batch(&prop, verif_seed, n, workers.max(2), &dir.with_extension("d2"), true, true);
        let mut a = d1.digests.clone();
        let mut b = d2.digests.clone();
        a.sort();
        b.sort();
        let mismatches = a.iter().zip(b.iter()).filter(|(x, y)| x != y).count()
            + (a.len() as i64 - b.len() as i64).unsigned_abs() as usize;
        determinism = json!({"seeds_rechecked": n, "processes": [1, workers.max(2)], "mismatches": mismatches});
        if mismatches > 0 {
            eprintln!("HARNESS ERROR: determinism self-check failed: {mismatches} of {n} seeds differ between two executions");
            for (x, y) in a.iter().zip(b.iter()).filter(|(x, y)| x != y).take(5) {
                eprintln!("  {x}\n  {y}");
            }
            exit = 2;
        }
    }

    let wall = t0.elapsed().as_secs_f64();
    let findings = load_findings();
    for (sig, n) in &res.known_hits {
        let desc = findings
            .iter()
            .find(|f| &f.signature == sig)
            .map(|f| f.description.clone())
            .unwrap_or_default();
        println!("KNOWN-FINDING: property={} {} [{} runs; signature: {}]", prop.id, desc, n, sig);
    }
    let _ = fs::create_dir_all(vdir.join("replays"));
    let mut replay_paths = Vec::new();
    for v in &res.violations {
        let mut v = v.clone();
        v["repo_head"] = json!(repo_head());
        let name = format!(
            "{}-{}-{}.json",
            prop.id,
            v["verif_seed"].as_u64().unwrap_or(0),
            v["run_index"].as_u64().unwrap_or(0)
        );
        let path = vdir.join("replays").join(name);
        fs::write(&path, serde_json::to_vec_pretty(&v).unwrap()).expect("write replay");
        println!("violation: {}", v["signature"].as_str().unwrap_or("?"));
        println!("VIOLATION property={} replay={}", prop.id, path.display());
        replay_paths.push(path.display().to_string());
        exit = 1.max(exit);
    }
    if keep_going {
        for (sig, n) in &res.sig_counts {
            println!("  {n:>8}  {sig}");
        }
    }
    for e in &res.harness_errors {
        eprintln!("HARNESS ERROR: {e}");
        if exit == 0 {
            exit = 2;
        }
    }
    let reach = if tier == "quick" { prop.reach_quick } else { prop.reach_thorough };
    let mut unreached = Vec::new();
    for p in reach {
        if res.probes.get(*p).copied().unwrap_or(0) == 0 {
            unreached.push(p.to_string());
        }
    }
    // reach is only enforced for full-size batches (a reduced VERIF_RUNS is a developer's run)
    let full_size = runs >= if tier == "quick" { prop.quick_runs } else { prop.thorough_runs };
    if !unreached.is_empty() && res.violations.is_empty() && full_size {
        eprintln!("HARNESS ERROR: reach probes at zero: {:?}", unreached);
        if exit == 0 {
            exit = 2;
        }
    }

    let faults: BTreeMap<&String, &u64> = res.probes.iter().filter(|(k, _)| k.contains("fault") || k.starts_with("net.") || k.starts_with("tmp.")).collect();
    let evidence = json!({
        "property_id": prop.id,
        "tier": tier,
        "seed": verif_seed,
        "level": "exploration",
        "coverage": {
            "evaluations": res.evaluations,
            "distinct_nontrivial": res.distinct,
            "nontrivial_runs": res.nontrivial,
            "rule": prop.rule,
            "samples": res.samples,
            "runs_per_hour": if wall > 0.0 { (res.evaluations as f64 / wall * 3600.0) as u64 } else { 0 },
            "sim_time_s": res.sim_s,
            "sim_events_fired": res.events,
            "faults_fired": faults,
            "probes": res.probes,
            "reach_probes_required": reach,
            "reach_probes_at_zero": unreached,
            "new_distinct_in_last_decile": res.new_keys_last_decile,
            "components": {"real": prop.real, "stub": prop.stub},
            "determinism": determinism,
            "known_findings_hit": res.known_hits,
            "engine": prop.engine_name,
            "workers": workers,
            "replays": replay_paths,
            "repo_head": repo_head(),
        },
        "assumptions": prop.assumptions,
        "wall_s": wall,
        "violations": res.violation_count,
    });
    let _ = fs::create_dir_all(vdir.join("evidence"));
    fs::write(
        vdir.join("evidence").join(format!("{}.json", prop.id)),
        serde_json::to_vec_pretty(&evidence).unwrap(),
    )
    .expect("write evidence");
    println!(
        "sim: {} runs, {} non-trivial, {} distinct, {:.1} s simulated, {:.1} s wall, violations={} known={}",
        res.evaluations,
        res.nontrivial,
        res.distinct,
        res.sim_s,
        wall,
        res.violation_count,
        res.known_hits.values().sum::<u64>()
    );
    exit
}

// ---------------------------------------------------------------------------------------------
// replay / one / selfcheck

fn print_report(r: &RunReport) {
    for l in &r.log {
        println!("  {l}");
    }
    println!("  info: {}", r.info);
    println!("  probes: {:?}", r.probes);
    println!("  tape ({} cells): {:?}", r.tape.len(), &r.tape[..r.tape.len().min(200)]);
    println!("  trace_digest: {:016x}", r.digest);
}

pub fn cmd_replay(a: &[String]) -> i32 {
    let Some(path) = a.first() else {
        eprintln!("usage: sim replay <file>");
        return 2;
    };
    let Ok(s) = fs::read(path) else {
        eprintln!("cannot read {path}");
        return 2;
    };
    let Ok(v) = serde_json::from_slice::<Value>(&s) else {
        eprintln!("bad replay file");
        return 2;
    };
    let pid = v["property"].as_str().unwrap_or("");
    let Some(prop) = props::find(pid) else {
        eprintln!("unknown property in replay file");
        return 2;
    };
    let tape = if v["mode"].as_str() == Some("seed") {
        Tape::generate(v["run_seed"].as_u64().unwrap_or(0))
    } else {
        Tape::replay(
            v["tape"]
                .as_array()
                .map(|a| a.iter().map(|x| x.as_u64().unwrap_or(0) as u32).collect())
                .unwrap_or_default(),
        )
    };
    println!("replay: property={} run_index={} expected signature: {}", pid, v["run_index"], v["signature"].as_str().unwrap_or(""));
    let r = run_tape(tape, true, prop.engine);
    print_report(&r);
    match &r.status {
        Status::Ok => {
            println!("NOT REPRODUCED: the run completes without a violation on this tree");
            0
        }
        Status::Violation(viol) => {
            let same_sig = viol.signature() == v["signature"].as_str().unwrap_or("");
            let same_digest = v["trace_digest"].as_str().map(|d| d == format!("{:016x}", r.digest)).unwrap_or(true);
            println!("violation: {}", viol.signature());
            println!(
                "REPRODUCED signature_match={} trace_digest_match={}",
                same_sig, same_digest
            );
            println!("VIOLATION property={} replay={}", pid, path);
            1
        }
    }
}

pub fn cmd_one(a: &[String]) -> i32 {
    let (Some(pid), Some(idx)) = (a.first(), a.get(1).and_then(|s| s.parse::<u64>().ok())) else {
        eprintln!("usage: sim one <PROP> <idx> [verif_seed] [--quiet]");
        return 2;
    };
    let Some(prop) = props::find(pid) else { return 2 };
    let verif_seed = a.get(2).and_then(|s| s.parse().ok()).unwrap_or_else(|| env_u64("VERIF_SEED").unwrap_or(DEFAULT_SEED));
    let quiet = a.iter().any(|s| s == "--quiet");
    let seed = run_seed(verif_seed, prop.id, idx);
    let r = run_tape(Tape::generate(seed), !quiet, prop.engine);
    if !quiet {
        print_report(&r);
    }
    match &r.status {
        Status::Ok => 0,
        Status::Violation(v) => {
            if !quiet {
                println!("violation: {}", v.signature());
            }
            1
        }
    }
}

pub fn cmd_selfcheck(a: &[String]) -> i32 {
    let (Some(pid), Some(n)) = (a.first(), a.get(1).and_then(|s| s.parse::<u64>().ok())) else {
        eprintln!("usage: sim selfcheck <PROP> <n>");
        return 2;
    };
    let Some(prop) = props::find(pid) else { return 2 };
    let verif_seed = env_u64("VERIF_SEED").unwrap_or(DEFAULT_SEED);
    let base = verif_dir().join("sim/target/runs").join(format!("selfcheck-{}-{}", pid, std::process::id()));
    let d1 = run_batch(&prop, verif_seed, n, 1, &base.with_extension("a"), true, true);
    let d2 = run_batch(&prop, verif_seed, n, 16, &base.with_extension("b"), true, true);
    let d3 = run_batch(&prop, verif_seed, n, 5, &base.with_extension("c"), true, true);
    let norm = |mut v: Vec<String>| {
        v.sort();
        v
    };
    let (a1, a2, a3) = (norm(d1.digests), norm(d2.digests), norm(d3.digests));
    let mm = |x: &Vec<String>, y: &Vec<String>| x.iter().zip(y.iter()).filter(|(p, q)| p != q).count() + (x.len() as i64 - y.len() as i64).unsigned_abs() as usize;
    let m12 = mm(&a1, &a2);
    let m13 = mm(&a1, &a3);
    println!("selfcheck {pid}: {n} seeds x 3 executions (1, 16, 5 worker processes): mismatches {m12} / {m13}");
    if m12 + m13 > 0 {
        for (x, y) in a1.iter().zip(a2.iter()).filter(|(p, q)| p != q).take(5) {
            println!("  {x}\n  {y}");
        }
        return 2;
    }
    0
}

/// Replay equivalence: a run generated from a seed and the run replayed from its recorded tape
/// must be the same run (status, distinct key, trace digest, recorded tape).
pub fn cmd_replaycheck(a: &[String]) -> i32 {
    let (Some(pid), Some(n)) = (a.first(), a.get(1).and_then(|s| s.parse::<u64>().ok())) else {
        eprintln!("usage: sim replaycheck <PROP> <n>");
        return 2;
    };
    let Some(prop) = props::find(pid) else { return 2 };
    let verif_seed = env_u64("VERIF_SEED").unwrap_or(DEFAULT_SEED);
    let mut bad = 0;
    for idx in 0..n {
        let seed = run_seed(verif_seed, prop.id, idx);
        let r1 = run_tape(Tape::generate(seed), false, prop.engine);
        let r2 = run_tape(Tape::replay(r1.tape.clone()), false, prop.engine);
        let same = r1.status == r2.status && r1.key == r2.key && r1.digest == r2.digest && r1.tape == r2.tape;
        if !same {
            bad += 1;
            if bad <= 5 {
                println!("replay differs at run {idx}: status {:?} vs {:?}, key {:016x} vs {:016x}, digest {:016x} vs {:016x}, tape {} vs {} cells", r1.status, r2.status, r1.key, r2.key, r1.digest, r2.digest, r1.tape.len(), r2.tape.len());
            }
        }
    }
    println!("replaycheck {pid}: {n} runs generated and replayed from their tapes: {bad} differ");
    if bad > 0 {
        2
    } else {
        0
    }
}

pub fn cmd_hashseed_test() -> i32 {
    // Shows that the interposer owns HashMap iteration order.
    let order = |seed: u64| -> Vec<u32> {
        simkit::runner::on_fresh_thread(seed, || {
            let mut m = std::collections::HashMap::new();
            for i in 0..16u32 {
                m.insert(i, ());
            }
            m.keys().copied().collect::<Vec<_>>()
        })
        .unwrap()
    };
    let a = order(1);
    let b = order(1);
    let c = order(2);
    println!("seed1: {a:?}\nseed1: {b:?}\nseed2: {c:?}");
    if a == b && a != c {
        println!("hash seeds are owned");
        0
    } else {
        println!("hash seeds are NOT owned");
        2
    }
}

#[allow(dead_code)]
fn _w(mut f: fs::File) {
    let _ = f.write_all(b"");
}
