//! Registry: property id → engine, budgets, evidence texts.

use simkit::Outcome;

pub struct Prop {
    pub id: &'static str,
    pub engine_name: &'static str,
    pub engine: fn() -> Outcome,
    pub quick_runs: u64,
    pub thorough_runs: u64,
    pub rule: &'static str,
    pub real: &'static [&'static str],
    pub stub: &'static [&'static str],
    pub assumptions: &'static [&'static str],
    /// Probes that must be non-zero for the batch to count as having reached what it claims.
    pub reach_quick: &'static [&'static str],
    pub reach_thorough: &'static [&'static str],
    /// Per-run wall-clock watchdog in seconds (backstop only; all budgets are in steps).
    pub watchdog_s: u64,
}

const REAL_SYMS: &[&str] = &[
    "breakpad-symbols (Symbolizer, CachedAsyncResult, SymbolFile::parse/parse_async, parser, walker, http.rs incl. the mozilla_cab_symbols path) built from /repo's working tree, release + overflow-checks",
    "futures-util (join_all, lock::Mutex)",
    "cachemap2",
    "circular",
    "nom",
    "range-map",
    "cab + lzxd + flate2 (cabinet unpacking in the CAB path; the same crate builds the served archives and the oracle's reference unpacking)",
];

pub fn all() -> Vec<Prop> {
    vec![
        Prop {
            id: "C12",
            engine_name: "E2-lookup",
            engine: crate::e2_lookup::run,
            quick_runs: 1_000_000,
            thorough_runs: 12_000_000,
            rule: crate::e2_lookup::RULE,
            real: REAL_SYMS,
            stub: &[
                "executor: simkit::exec (single-threaded, seeded, spurious polls)",
                "SymbolSupplier: ScriptedSupplier (gated answers) in scenario `scripted`",
                "reqwest: reqwest-sim (scenario `http`)",
                "tempfile: tempfile-sim over the real kernel FS in /dev/shm (scenario `http`)",
            ],
            assumptions: &[
                "interleavings are explored at poll-boundary granularity on one OS thread; real parallel execution of the short std::sync::Mutex sections is not simulated",
                "no cancellation (the property excludes it)",
                "sampling, not enumeration: a clean batch is evidence, not proof",
            ],
            reach_quick: &["e2.contended_lock", "e2.concurrent_same_key", "e2.joinall", "e2.http_files", "e2.pipeline"],
            reach_thorough: &[
                "e2.contended_lock",
                "e2.concurrent_same_key",
                "e2.joinall",
                "e2.joinall_large",
                "e2.remembered_failure_reused",
                "e2.http_files",
                "e2.pipeline",
            ],
            watchdog_s: 60,
        },
        Prop {
            id: "C10",
            engine_name: "E1-symstream",
            engine: crate::e1_symstream::run_c10,
            quick_runs: 100_000,
            thorough_runs: 1_500_000,
            rule: crate::e1_symstream::RULE_C10,
            real: REAL_SYMS,
            stub: &[
                "reader: ChunkReader (impl Read) whose every read size is a tape decision",
                "HTTP body: reqwest-sim Response with tape-decided chunking and Pending gates, polled by simkit::exec",
            ],
            assumptions: &[
                "fault-free readers only (EINTR / errors belong to C09's relaxed oracle)",
                "equality oracle applies to inputs whose lines are all shorter than 79 KiB",
                "HTTP bodies never contain empty chunks (hyper's decoder does not yield them)",
            ],
            reach_quick: &["e1.trickle", "e1.split_in_crlf", "e1.async_path", "e1.grow_20k", "e1.all_single_splits"],
            reach_thorough: &[
                "e1.trickle",
                "e1.split_in_crlf",
                "e1.async_path",
                "e1.grow_20k",
                "e1.grow_160k",
                "e1.unterminated_last_line",
                "e1.all_single_splits",
            ],
            watchdog_s: 120,
        },
        Prop {
            id: "C09",
            engine_name: "E1-symstream",
            engine: crate::e1_symstream::run_c09,
            quick_runs: 100_000,
            thorough_runs: 1_500_000,
            rule: crate::e1_symstream::RULE_C09,
            real: REAL_SYMS,
            stub: &[
                "reader: ChunkReader with EINTR / EIO / early-EOF / bit-flip / duplicate / drop faults",
                "HTTP body: reqwest-sim Response (reset, clean cut)",
                "allocation meter: simkit::alloc::Meter (global allocator wrapper)",
            ],
            assumptions: &[
                "the line grammar's totality on arbitrary bytes is the pure part of C09; the simulator contributes the read schedule and reader faults, the content comes from the grammar generator plus corruption",
                "memory window measured as peak live heap minus retained result, on inputs whose retained structure is small",
            ],
            reach_quick: &["e1.recovery_entered", "e1.fault.eintr", "e1.fault.eio", "e1.long_line_dropped_ok"],
            reach_thorough: &[
                "e1.recovery_entered",
                "e1.fault.eintr",
                "e1.fault.eio",
                "e1.fault.flip",
                "e1.fault.dup",
                "e1.fault.drop",
                "e1.long_line_dropped_ok",
                "e1.giant_line",
                "e1.giant_line_async",
            ],
            watchdog_s: 120,
        },
        Prop {
            id: "C16",
            engine_name: "E3-httpcache",
            engine: crate::e3_httpcache::run,
            quick_runs: 100_000,
            thorough_runs: 2_500_000,
            rule: crate::e3_httpcache::RULE,
            real: REAL_SYMS,
            stub: &[
                "reqwest: reqwest-sim (scripted server, discrete-event clock, timeouts)",
                "tempfile: tempfile-sim (create_new / link+unlink / unlink-on-drop over the real kernel FS, fault plan)",
                "file system: real kernel FS in a private scratch directory under /dev/shm",
                "executor: simkit::exec, cancellation = dropping the task at a poll boundary",
            ],
            assumptions: &[
                "power loss / fsync semantics are out of scope (the property's quantifier stops at abandoned requests)",
                "a second process is modelled as a second supplier instance in the same run, plus a rival commit injected at the persist seam",
                "module names are benign (path traversal is C17's subject)",
            ],
            reach_quick: &["e3.commit", "e3.cancelled_midway", "e3.cut_reset", "e3.cut_clean", "e3.cache_hit_reload"],
            reach_thorough: &[
                "e3.commit",
                "e3.cancelled_midway",
                "e3.cut_reset",
                "e3.cut_clean",
                "e3.cache_hit_reload",
                "e3.timeout",
                "e3.rival_commit",
                "e3.write_fault",
                "e3.persist_fault",
                "e3.persist_failed_entry_gone",
                "e3.tmp_missing",
                "e3.cab_entry_permitted",
                "e3.error_with_good_body",
            ],
            watchdog_s: 60,
        },
        Prop {
            id: "C13",
            engine_name: "E4-pipeline",
            engine: crate::e4_pipeline::run_c13,
            quick_runs: 3_000,
            thorough_runs: 40_000,
            rule: crate::e4_pipeline::RULE_C13,
            real: &[
                "minidump, minidump-common, minidump-unwind, minidump-processor, breakpad-symbols built from /repo's working tree, release + overflow-checks",
                "futures-util join_all / FuturesUnordered, serde_json",
            ],
            stub: &[
                "executor: simkit::exec",
                "symbol supply: GatedSupplier (scripted delays) or real HttpSymbolSupplier over reqwest-sim + tempfile-sim",
                "hash seeds: getrandom interposer, one fresh thread per execution",
                "dump writer: minidump-synth driven by the crashed-process generator",
            ],
            assumptions: &[
                "executions of one world are compared only when every module's fetch outcome is the same in all of them",
                "multi-threaded runtimes are represented by poll-order and hash-seed variation on one OS thread",
            ],
            reach_quick: &["e4.multi_thread_world", "e4.shared_module_slow", "e4.proc_limits", "e4.schedules_differ"],
            reach_thorough: &[
                "e4.multi_thread_world",
                "e4.shared_module_slow",
                "e4.proc_limits",
                "e4.schedules_differ",
                "e4.many_threads",
                "e4.http_supplier",
                "e4.cfi_alias_rules",
            ],
            watchdog_s: 400,
        },
        Prop {
            id: "C03",
            engine_name: "E4-pipeline",
            engine: crate::e4_pipeline::run_c03,
            quick_runs: 8_000,
            thorough_runs: 100_000,
            rule: crate::e4_pipeline::RULE_C03,
            real: &[
                "minidump, minidump-common, minidump-unwind, minidump-processor, breakpad-symbols built from /repo's working tree, release + overflow-checks",
                "futures-util join_all / FuturesUnordered, serde_json, yaxpeax-x86",
            ],
            stub: &[
                "executor: simkit::exec",
                "symbol supply: real HttpSymbolSupplier over reqwest-sim + tempfile-sim, or GatedSupplier",
                "dump storage: serialised dump with torn tail / lost sector / stale sector / bit rot applied before Minidump::read",
                "output writer: fault-injecting Write",
                "allocation meter with hard cap",
            ],
            assumptions: &[
                "the input-shaped part of the quantifier is reached through the workload generator's adversarial shapes; the simulator adds schedule, supply and storage faults",
                "time budget = executor steps and provider calls, wall-clock only as a watchdog",
            ],
            reach_quick: &["e4.storage_fault", "e4.supply_fault", "e4.rendered_all", "e4.writer_fault"],
            reach_thorough: &[
                "e4.storage_fault",
                "e4.supply_fault",
                "e4.rendered_all",
                "e4.writer_fault",
                "e4.proc_limits",
                "e4.handle_stream",
                "e4.stack_win",
            ],
            watchdog_s: 400,
        },
    ]
}

pub fn find(id: &str) -> Option<Prop> {
    all().into_iter().find(|p| p.id == id)
}
